// llgx — E2 exporter / replayer. Uses only the PUBLIC API of llguidance + toktrie.
// Reads one JSON job per line on stdin, writes one JSON result per line on stdout.
//
// ops:
//   compile : run the real front end (+ optimize, + compile) and export grammar text before/after optimisation,
//             compiled-grammar text, lexeme list, and the fully materialised lexer automaton of selected lexemes
//   subsume : C10 — real check_subsume verdicts per (state, slice)
//   replay  : feed bytes to the real Matcher over the single-byte vocabulary
//   history : scripted call sequence (consume / mask / rollback / ff / validate) on the real Matcher
//   maskdiff: C10 — sliced vs unsliced mask after a byte prefix, over single bytes + given extra tokens
use std::collections::HashMap;
use std::io::{BufRead, Write};
use std::panic::{catch_unwind, AssertUnwindSafe};

use llguidance::api::{GrammarInit, ParserLimits, TopLevelGrammar};
use llguidance::derivre::StateID;
use llguidance::earley::lexerspec::{LexemeIdx, LexerSpec};
use llguidance::earley::regexvec::{LexemeSet, RegexVec};
use llguidance::earley::SlicedBiasComputer;
use llguidance::toktrie::{ApproximateTokEnv, InferenceCapabilities, TokEnv, TokRxInfo, TokTrie};
use std::sync::Arc;
use llguidance::{Logger, Matcher, ParserFactory};
use serde_json::{json, Value};

fn top_level(job: &Value) -> Result<TopLevelGrammar, String> {
    let kind = job["kind"].as_str().unwrap_or("lark");
    match kind {
        "lark" => Ok(TopLevelGrammar::from_lark(
            job["text"].as_str().ok_or("text")?.to_string(),
        )),
        "regex" => Ok(TopLevelGrammar::from_regex(
            job["text"].as_str().ok_or("text")?,
        )),
        "json" => Ok(TopLevelGrammar::from_json_schema(job["schema"].clone())),
        _ => Err(format!("unknown kind {kind}")),
    }
}

fn tok_env() -> TokEnv {
    ApproximateTokEnv::single_byte_env()
}

struct Automaton {
    ids: HashMap<u32, usize>,
    order: Vec<StateID>,
}

/// breadth-first materialisation of the engine's own (lazily built) lexer table from `init`
fn materialise(rv: &mut RegexVec, init: StateID, max_states: usize) -> Result<(Automaton, Vec<Vec<usize>>), String> {
    let mut a = Automaton {
        ids: HashMap::new(),
        order: vec![],
    };
    // index 0 is always the dead state
    a.ids.insert(StateID::DEAD.as_u32(), 0);
    a.order.push(StateID::DEAD);
    let mut trans: Vec<Vec<usize>> = vec![vec![0; 256]];
    let key = |s: StateID| s.as_usize() as u32;
    if !init.is_dead() {
        a.ids.insert(key(init), 1);
        a.order.push(init);
        trans.push(vec![0; 256]);
    }
    let mut i = 1;
    while i < a.order.len() {
        let s = a.order[i];
        for b in 0..=255u8 {
            let t = rv.transition(s, b);
            if rv.has_error() {
                return Err(format!("lexer error: {:?}", rv.get_error()));
            }
            let ti = if t.is_dead() {
                0
            } else {
                let k = key(t);
                match a.ids.get(&k) {
                    Some(x) => *x,
                    None => {
                        let n = a.order.len();
                        if n >= max_states {
                            return Err(format!("automaton exceeds {max_states} states"));
                        }
                        a.ids.insert(k, n);
                        a.order.push(t);
                        trans.push(vec![0; 256]);
                        n
                    }
                }
            };
            trans[i][b as usize] = ti;
        }
        i += 1;
    }
    Ok((a, trans))
}

fn compress_row(row: &[usize]) -> Value {
    // [[lo, hi, target], ...] for non-dead targets only
    let mut out = vec![];
    let mut b = 0usize;
    while b < 256 {
        let t = row[b];
        let mut e = b;
        while e + 1 < 256 && row[e + 1] == t {
            e += 1;
        }
        if t != 0 {
            out.push(json!([b, e, t]));
        }
        b = e + 1;
    }
    Value::Array(out)
}

fn automaton_json(rv: &mut RegexVec, set: &LexemeSet, max_states: usize) -> Value {
    let init = rv.initial_state(set);
    match materialise(rv, init, max_states) {
        Err(e) => json!({"error": e}),
        Ok((a, trans)) => {
            let mut states = vec![];
            for (i, s) in a.order.iter().enumerate() {
                if i == 0 {
                    states.push(json!({"t": [], "acc": [], "lazy": [], "possible": [], "nb": "Dead", "special": false}));
                    continue;
                }
                let nb = format!("{:?}", rv.next_byte(*s));
                let nbv = match rv.next_byte(*s) {
                    llguidance::derivre::NextByte::ForcedByte(b) => json!({"k": "ForcedByte", "b": [b]}),
                    llguidance::derivre::NextByte::ForcedEOI => json!({"k": "ForcedEOI", "b": []}),
                    llguidance::derivre::NextByte::SomeBytes0 => json!({"k": "SomeBytes0", "b": []}),
                    llguidance::derivre::NextByte::SomeBytes1(b) => json!({"k": "SomeBytes1", "b": [b]}),
                    llguidance::derivre::NextByte::SomeBytes2([x, y]) => json!({"k": "SomeBytes2", "b": [x, y]}),
                    llguidance::derivre::NextByte::Dead => json!({"k": "Dead", "b": []}),
                };
                let d = rv.state_desc(*s);
                let acc: Vec<usize> = d.greedy_accepting.as_slice().iter().map(|x| x.as_usize()).collect();
                let lazy: Vec<usize> = d.lazy_accepting.as_slice().iter().map(|x| x.as_usize()).collect();
                let poss: Vec<usize> = d.possible.iter().map(|x| x.as_usize()).collect();
                states.push(json!({
                    "t": compress_row(&trans[i]),
                    "acc": acc, "lazy": lazy, "possible": poss, "nb": nbv, "nbs": nb,
                    "special": d.has_special_token, "lowest": s.has_lowest_match(), "hidden": d.lazy_hidden_len,
                }));
            }
            json!({"init": if init.is_dead() {0} else {1}, "n": a.order.len(), "states": states})
        }
    }
}

fn lexeme_list(spec: &LexerSpec) -> Value {
    let mut v = vec![];
    for (i, l) in spec.lexemes.iter().enumerate() {
        v.push(json!({
            "idx": i,
            "desc": l.to_string(2000, Some(spec.regex_builder.exprset())),
            "max_tokens": if l.max_tokens() == usize::MAX { Value::Null } else { json!(l.max_tokens()) },
            "class": l.class().as_usize(),
            "contains_token_probe": [l.contains_token(0), l.contains_token(1)],
        }));
    }
    Value::Array(v)
}

fn op_compile(job: &Value) -> Value {
    let tl = match top_level(job) {
        Ok(t) => t,
        Err(e) => return json!({"ok": false, "error": e, "stage": "job"}),
    };
    let limits = ParserLimits::default();
    let want = |k: &str| job["want"].as_array().map(|a| a.iter().any(|x| x == k)).unwrap_or(false);
    let (grammar, mut spec) = match GrammarInit::Serialized(tl.clone()).to_internal(Some(tok_env()), limits.clone()) {
        Ok(x) => x,
        Err(e) => return json!({"ok": false, "error": format!("{e}"), "stage": "to_internal"}),
    };
    let extra: Vec<String> = job["extra_lexemes"]
        .as_array()
        .map(|a| a.iter().map(|x| x.as_str().unwrap().to_string()).collect())
        .unwrap_or_default();
    if !extra.is_empty() {
        spec.add_extra_lexemes(&extra);
    }
    let mut out = json!({"ok": true});
    if want("grammar") {
        out["grammar_before"] = json!(grammar.to_string(Some(&spec)));
        let opt = grammar.optimize();
        out["grammar_after"] = json!(opt.to_string(Some(&spec)));
    }
    if want("cgrammar") {
        let opt = grammar.optimize();
        match opt.compile(spec.clone(), &limits) {
            Ok(cg) => {
                out["cgrammar"] = json!(format!("{:?}", cg));
                out["cgrammar_start"] = json!(cg.sym_name(cg.start()));
            }
            Err(e) => {
                out["cgrammar_error"] = json!(format!("{e}"));
            }
        }
    }
    if want("lexemes") || want("automata") {
        out["lexemes"] = lexeme_list(&spec);
        out["num_extra"] = json!(spec.num_extra_lexemes);
        out["skip_by_class"] = json!(spec.skip_by_class.iter().map(|x| x.as_usize()).collect::<Vec<_>>());
    }
    if want("automata") {
        let max_states = job["max_states"].as_u64().unwrap_or(3000) as usize;
        let mut lim = limits.clone();
        match spec.to_regex_vec(&mut lim) {
            Err(e) => {
                out["automata_error"] = json!(format!("{e}"));
            }
            Ok(mut rv) => {
                let n = spec.lexemes.len();
                let single_all = job["lexeme_sets"].as_str() == Some("single+all");
                let sel: Vec<Vec<usize>> = if single_all {
                    // every lexeme alone, then all lexemes of the grammar together (the state sets the parser really uses are subsets of it)
                    let mut v: Vec<Vec<usize>> = (0..n).map(|i| vec![i]).collect();
                    if n > 1 {
                        v.push((0..n).collect());
                        // and all pairs when there are few lexemes
                        if n <= 8 {
                            for a in 0..n {
                                for b in (a + 1)..n {
                                    v.push(vec![a, b]);
                                }
                            }
                        }
                    }
                    v
                } else {
                    match job["lexeme_sets"].as_array() {
                    Some(a) => a
                        .iter()
                        .map(|s| s.as_array().unwrap().iter().map(|x| x.as_u64().unwrap() as usize).collect())
                        .collect(),
                    None => (0..n).map(|i| vec![i]).collect(),
                    }
                };
                let mut autos = vec![];
                for s in sel {
                    let mut set = LexemeSet::new(n);
                    for i in &s {
                        if *i < n {
                            set.add(LexemeIdx::new(*i));
                        }
                    }
                    let mut a = automaton_json(&mut rv, &set, max_states);
                    a["lexemes"] = json!(s);
                    autos.push(a);
                }
                out["automata"] = Value::Array(autos);
            }
        }
    }
    out
}

fn op_subsume(job: &Value) -> Value {
    let tl = match top_level(job) {
        Ok(t) => t,
        Err(e) => return json!({"ok": false, "error": e}),
    };
    let limits = ParserLimits::default();
    let (_grammar, mut spec) = match GrammarInit::Serialized(tl).to_internal(Some(tok_env()), limits.clone()) {
        Ok(x) => x,
        Err(e) => return json!({"ok": false, "error": format!("{e}"), "stage": "to_internal"}),
    };
    let slices: Vec<String> = match job["slices"].as_str() {
        Some("general") => SlicedBiasComputer::general_slices(),
        Some("json") => SlicedBiasComputer::json_slices(),
        _ => job["slices"].as_array().map(|a| a.iter().map(|x| x.as_str().unwrap().to_string()).collect()).unwrap_or_default(),
    };
    spec.add_extra_lexemes(&slices);
    let n = spec.lexemes.len();
    let n_extra = spec.num_extra_lexemes;
    let max_states = job["max_states"].as_u64().unwrap_or(600) as usize;
    let budget = job["budget"].as_u64().unwrap_or(1000);
    let mut lim = limits.clone();
    let mut rv = match spec.to_regex_vec(&mut lim) {
        Ok(r) => r,
        Err(e) => return json!({"ok": false, "error": format!("{e}"), "stage": "to_regex_vec"}),
    };
    let mut out = json!({"ok": true, "slices": slices, "lexemes": lexeme_list(&spec), "n_extra": n_extra});
    // automata of the slice regexes (each alone)
    let mut slice_autos = vec![];
    for j in 0..n_extra {
        let idx = spec.extra_lexeme(j);
        let mut set = LexemeSet::new(n);
        set.add(idx);
        let mut a = automaton_json(&mut rv, &set, max_states);
        a["lexeme"] = json!(idx.as_usize());
        slice_autos.push(a);
    }
    out["slice_automata"] = Value::Array(slice_autos);
    // automata of every non-extra lexeme (each alone) + verdicts per state
    let only: Option<Vec<usize>> = job["only_lexemes"].as_array().map(|a| a.iter().map(|x| x.as_u64().unwrap() as usize).collect());
    let mut lex_autos = vec![];
    for i in 0..(n - n_extra) {
        if let Some(o) = &only {
            if !o.contains(&i) {
                continue;
            }
        }
        let mut set = LexemeSet::new(n);
        set.add(LexemeIdx::new(i));
        let init = rv.initial_state(&set);
        let (a, trans) = match materialise(&mut rv, init, max_states) {
            Ok(x) => x,
            Err(e) => {
                lex_autos.push(json!({"lexeme": i, "error": e}));
                continue;
            }
        };
        let mut states = vec![];
        for (k, s) in a.order.iter().enumerate() {
            if k == 0 {
                states.push(json!({"t": [], "acc": false, "possible": false, "verdicts": []}));
                continue;
            }
            let possible = rv.subsume_possible(*s);
            let mut verdicts = vec![];
            if possible {
                for j in 0..n_extra {
                    let r = catch_unwind(AssertUnwindSafe(|| rv.check_subsume(*s, spec.extra_lexeme(j), budget)));
                    verdicts.push(match r {
                        Ok(Ok(b)) => json!(b),
                        Ok(Err(e)) => json!(format!("err:{e}")),
                        Err(_) => json!("panic"),
                    });
                }
            }
            let acc = rv.state_desc(*s).greedy_accepting.as_slice().iter().any(|x| x.as_usize() == i);
            states.push(json!({"t": compress_row(&trans[k]), "acc": acc, "possible": possible, "verdicts": verdicts}));
        }
        lex_autos.push(json!({"lexeme": i, "init": if init.is_dead() {0} else {1}, "n": a.order.len(), "states": states}));
    }
    out["lexeme_automata"] = Value::Array(lex_autos);
    // joint automata (several lexemes live in one lexer state: the only place where lazy and greedy lexemes meet)
    if job["joint"].as_bool().unwrap_or(false) {
        let nn = n - n_extra;
        let mut sets: Vec<Vec<usize>> = vec![(0..nn).collect()];
        if nn <= 6 {
            for i in 0..nn {
                for j in (i + 1)..nn {
                    if nn > 2 {
                        sets.push(vec![i, j]);
                    }
                }
            }
        }
        let mut joint = vec![];
        let lazy_set = rv.lazy_regexes().clone();
        for ls in sets {
            let mut set = LexemeSet::new(n);
            for i in &ls {
                set.add(LexemeIdx::new(*i));
            }
            let init = rv.initial_state(&set);
            let (a, trans) = match materialise(&mut rv, init, max_states) {
                Ok(x) => x,
                Err(e) => {
                    joint.push(json!({"set": ls, "error": e}));
                    continue;
                }
            };
            let mut states = vec![];
            for (k, s) in a.order.iter().enumerate() {
                if k == 0 {
                    states.push(json!({"t": [], "acc": false, "possible": false, "verdicts": [], "lazy_acc": false, "lazy_live": false}));
                    continue;
                }
                let possible = rv.subsume_possible(*s);
                let mut verdicts = vec![];
                if possible {
                    for j in 0..n_extra {
                        let r = catch_unwind(AssertUnwindSafe(|| rv.check_subsume(*s, spec.extra_lexeme(j), budget)));
                        verdicts.push(match r {
                            Ok(Ok(b)) => json!(b),
                            Ok(Err(e)) => json!(format!("err:{e}")),
                            Err(_) => json!("panic"),
                        });
                    }
                }
                let desc = rv.state_desc(*s);
                let acc = desc.greedy_accepting.is_some();
                let lazy_acc = desc.lazy_accepting.is_some();
                let lazy_live = desc.possible.iter().any(|i| lazy_set.contains(i));
                states.push(json!({"t": compress_row(&trans[k]), "acc": acc, "possible": possible, "verdicts": verdicts, "lazy_acc": lazy_acc, "lazy_live": lazy_live}));
            }
            joint.push(json!({"set": ls, "init": if init.is_dead() {0} else {1}, "n": a.order.len(), "states": states}));
        }
        out["joint_automata"] = Value::Array(joint);
    }
    out
}

/// C10 replay: the mask of an engine with slices against the mask of an engine without, after `bytes`, over a vocabulary of all single bytes
/// plus the given extra tokens
fn op_maskdiff(job: &Value) -> Value {
    let mut words: Vec<Vec<u8>> = (0..=255u8).map(|b| vec![b]).collect();
    for w in job["tokens"].as_array().cloned().unwrap_or_default() {
        words.push(w.as_array().unwrap().iter().map(|x| x.as_u64().unwrap() as u8).collect());
    }
    words.push(b"\xFF<|end|>".to_vec());
    let nw = words.len() as u32;
    let trie = TokTrie::from(&TokRxInfo::new(nw, nw - 1), &words);
    let env: TokEnv = Arc::new(ApproximateTokEnv::new(trie));
    let slices: Vec<String> = match job["slices"].as_str() {
        Some("general") => SlicedBiasComputer::general_slices(),
        Some("json") => SlicedBiasComputer::json_slices(),
        _ => job["slices"].as_array().map(|a| a.iter().map(|x| x.as_str().unwrap().to_string()).collect()).unwrap_or_default(),
    };
    let bytes: Vec<u8> = job["bytes"].as_array().unwrap().iter().map(|x| x.as_u64().unwrap() as u8).collect();
    let mut masks = vec![];
    let mut applied = 0;
    for sl in [slices.clone(), vec![]] {
        let tl = match top_level(job) {
            Ok(t) => t,
            Err(e) => return json!({"ok": false, "error": e}),
        };
        let mut factory = match ParserFactory::new(&env, InferenceCapabilities::default(), &sl) {
            Ok(f) => f,
            Err(e) => return json!({"ok": false, "error": format!("{e}")}),
        };
        factory.quiet();
        let parser = factory.create_parser_from_init_ext(GrammarInit::Serialized(tl), Logger::new(0, 0), InferenceCapabilities::default(), factory.limits().clone());
        if let Err(e) = &parser {
            return json!({"ok": false, "error": format!("{e}"), "stage": "create_parser"});
        }
        let mut m = Matcher::new(parser);
        for b in &bytes {
            if m.consume_token(*b as u32).is_err() {
                return json!({"ok": false, "error": "prefix not accepted", "stage": "prefix"});
            }
        }
        match m.compute_mask() {
            Ok(mask) => masks.push(mask),
            Err(e) => return json!({"ok": false, "error": format!("{e}"), "stage": "mask"}),
        }
        if !sl.is_empty() {
            applied = m.last_step_stats().map(|s| s.slices_applied).unwrap_or(0);
        }
    }
    let mut diff = vec![];
    for t in 0..nw {
        if masks[0].is_allowed(t) != masks[1].is_allowed(t) {
            diff.push(json!({"token": t, "bytes": words[t as usize], "sliced": masks[0].is_allowed(t), "plain": masks[1].is_allowed(t)}));
        }
    }
    json!({"ok": true, "diff": diff, "slices_applied": applied, "vocab": nw})
}

/// history: a scripted sequence of calls on the real Matcher over single bytes + the given extra tokens (+ one special token).
/// steps: {"consume": tok} | {"bytes": [..]} (one single-byte token each) | {"mask": true} | {"rollback": n} | {"ff": true} | {"accepting": true}
/// Every step reports what the engine answered; masks are reported as the list of allowed token ids.
fn op_history(job: &Value) -> Value {
    let mut words: Vec<Vec<u8>> = (0..=255u8).map(|b| vec![b]).collect();
    for w in job["tokens"].as_array().cloned().unwrap_or_default() {
        words.push(w.as_array().unwrap().iter().map(|x| x.as_u64().unwrap() as u8).collect());
    }
    words.push(b"\xFF<|end|>".to_vec());
    let nw = words.len() as u32;
    let trie = TokTrie::from(&TokRxInfo::new(nw, nw - 1), &words);
    let env: TokEnv = Arc::new(ApproximateTokEnv::new(trie));
    let slices: Vec<String> = match job["slices"].as_str() {
        Some("general") => SlicedBiasComputer::general_slices(),
        Some("json") => SlicedBiasComputer::json_slices(),
        _ => vec![],
    };
    let tl = match top_level(job) {
        Ok(t) => t,
        Err(e) => return json!({"ok": false, "error": e}),
    };
    let mut factory = match ParserFactory::new(&env, InferenceCapabilities::default(), &slices) {
        Ok(f) => f,
        Err(e) => return json!({"ok": false, "error": format!("{e}")}),
    };
    factory.quiet();
    let parser = factory.create_parser_from_init_ext(GrammarInit::Serialized(tl), Logger::new(0, 0), InferenceCapabilities::default(), factory.limits().clone());
    if let Err(e) = &parser {
        return json!({"ok": false, "error": format!("{e}"), "stage": "create_parser"});
    }
    let mut m = Matcher::new(parser);
    let mut out = vec![];
    let mask_list = |mask: &llguidance::toktrie::SimpleVob| -> Vec<u32> { (0..nw).filter(|t| mask.is_allowed(*t)).collect() };
    for st in job["steps"].as_array().cloned().unwrap_or_default() {
        if let Some(t) = st.get("consume").and_then(|x| x.as_u64()) {
            let r = m.consume_token(t as u32);
            out.push(json!({"consume": t, "ok": r.is_ok(), "err": r.err().map(|e| format!("{e}").chars().take(160).collect::<String>())}));
        } else if let Some(bs) = st.get("bytes").and_then(|x| x.as_array()) {
            let mut n = 0;
            for b in bs {
                if m.consume_token(b.as_u64().unwrap() as u32).is_err() {
                    break;
                }
                n += 1;
            }
            out.push(json!({"bytes": bs.len(), "consumed": n}));
        } else if st.get("mask").is_some() {
            match m.compute_mask() {
                Ok(mask) => out.push(json!({"mask": mask_list(&mask)})),
                Err(e) => out.push(json!({"mask_err": format!("{e}").chars().take(200).collect::<String>()})),
            }
        } else if let Some(n) = st.get("rollback").and_then(|x| x.as_u64()) {
            let r = m.rollback(n as usize);
            out.push(json!({"rollback": n, "ok": r.is_ok(), "err": r.err().map(|e| format!("{e}").chars().take(160).collect::<String>())}));
        } else if st.get("ff").is_some() {
            out.push(json!({"ff": m.compute_ff_bytes()}));
        } else if st.get("accepting").is_some() {
            out.push(json!({"accepting": m.is_accepting().unwrap_or(false), "stopped": m.is_stopped()}));
        } else if let Some(ts) = st.get("validate").and_then(|x| x.as_array()) {
            let toks: Vec<u32> = ts.iter().map(|x| x.as_u64().unwrap() as u32).collect();
            out.push(json!({"validate": m.validate_tokens(&toks).map(|n| n as i64).unwrap_or(-1)}));
        } else if st.get("invalidate").is_some() {
            m.invalidate_bias_cache();
            out.push(json!({"invalidate": true}));
        }
    }
    json!({"ok": true, "steps": out, "vocab": nw})
}

fn op_replay(job: &Value) -> Value {
    let tl = match top_level(job) {
        Ok(t) => t,
        Err(e) => return json!({"ok": false, "error": e}),
    };
    let env = tok_env();
    let slices: Vec<String> = match job["slices"].as_str() {
        Some("general") => SlicedBiasComputer::general_slices(),
        _ => vec![],
    };
    let mut factory = match ParserFactory::new(&env, InferenceCapabilities::default(), &slices) {
        Ok(f) => f,
        Err(e) => return json!({"ok": false, "error": format!("{e}")}),
    };
    factory.quiet();
    let parser = factory.create_parser_from_init_ext(
        GrammarInit::Serialized(tl),
        Logger::new(0, 0),
        InferenceCapabilities::default(),
        factory.limits().clone(),
    );
    if let Err(e) = &parser {
        return json!({"ok": false, "error": format!("{e}"), "stage": "create_parser"});
    }
    let mut m = Matcher::new(parser);
    let bytes: Vec<u8> = job["bytes"].as_array().unwrap().iter().map(|x| x.as_u64().unwrap() as u8).collect();
    let check_mask = job["check_mask"].as_bool().unwrap_or(true);
    let mut consumed = 0;
    let mut mask_ok = vec![];
    let mut acc_trace = vec![];
    for b in &bytes {
        if check_mask {
            match m.compute_mask() {
                Ok(mask) => mask_ok.push(mask.is_allowed(*b as u32)),
                Err(_) => {
                    mask_ok.push(false);
                }
            }
            if m.is_error() {
                break;
            }
        }
        acc_trace.push(m.is_accepting().unwrap_or(false));
        match m.consume_token(*b as u32) {
            Ok(()) => consumed += 1,
            Err(_) => break,
        }
    }
    let all = consumed == bytes.len();
    let accepting = if all { m.is_accepting().unwrap_or(false) } else { false };
    // what can follow: number of allowed tokens in the next mask (0 / error in a non-accepting state = dead end)
    let mut final_mask_count: i64 = -1;
    let mut final_mask_err: Option<String> = None;
    if all && job["final_mask"].as_bool().unwrap_or(false) {
        match m.compute_mask() {
            Ok(mask) => final_mask_count = mask.num_set() as i64,
            Err(e) => final_mask_err = Some(format!("{e}").chars().take(200).collect()),
        }
    }
    json!({"ok": true, "consumed": consumed, "all": all, "accepting": accepting, "mask_ok": mask_ok, "acc_trace": acc_trace,
           "error": m.get_error(), "stopped": m.is_stopped(), "final_mask_count": final_mask_count, "final_mask_err": final_mask_err,
           "stop_reason": format!("{:?}", m.stop_reason())})
}

fn main() {
    let stdin = std::io::stdin();
    let stdout = std::io::stdout();
    for line in stdin.lock().lines() {
        let line = line.unwrap();
        if line.trim().is_empty() {
            continue;
        }
        let job: Value = match serde_json::from_str(&line) {
            Ok(j) => j,
            Err(e) => {
                writeln!(stdout.lock(), "{}", json!({"ok": false, "error": format!("bad job: {e}")})).unwrap();
                continue;
            }
        };
        let op = job["op"].as_str().unwrap_or("compile").to_string();
        let r = catch_unwind(AssertUnwindSafe(|| match op.as_str() {
            "compile" => op_compile(&job),
            "subsume" => op_subsume(&job),
            "maskdiff" => op_maskdiff(&job),
            "replay" => op_replay(&job),
            "history" => op_history(&job),
            _ => json!({"ok": false, "error": "unknown op"}),
        }));
        let mut res = match r {
            Ok(v) => v,
            Err(_) => json!({"ok": false, "error": "panic in exporter/engine", "panic": true}),
        };
        if let Some(id) = job.get("id") {
            res["id"] = id.clone();
        }
        let mut lock = stdout.lock();
        writeln!(lock, "{}", res).unwrap();
        lock.flush().unwrap();
    }
}
