#!/usr/bin/env python3
"""Compares a `cargo test --workspace --no-fail-fast --offline` log against /root/.vp/BASELINE.json stable_pass."""
import json, re, sys
b = json.load(open('/root/.vp/BASELINE.json'))
sp = b['stable_pass']
log = open(sys.argv[1]).read()
cur = None
res = {}
for line in log.splitlines():
    m = re.match(r"\s+Running (?:unittests )?(\S+)", line)
    if m:
        m2 = re.search(r"\(([^)]*)\)", line)
        exe = m2.group(1) if m2 else ''
        cur = re.sub(r"-[0-9a-f]{16}$", "", exe.split('/')[-1])
        continue
    m = re.match(r"test (\S+)(?: - should panic)? \.\.\. (ok|FAILED|ignored)", line)
    if m and cur:
        res.setdefault((cur, m.group(1)), []).append(m.group(2))
missing, bad = [], []
for x in sp:
    parts = x.split('::')
    cands = [(parts[0], '::'.join(parts[1:])), (parts[1], '::'.join(parts[2:]))]
    st = None
    for c in cands:
        if c in res:
            st = res[c]
    if st is None:
        missing.append(x)
    elif 'ok' not in st:
        bad.append((x, st))
print("stable_pass:", len(sp), "missing:", len(missing), missing[:5], "not ok:", bad)
sys.exit(1 if (missing or bad) else 0)
