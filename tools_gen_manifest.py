#!/usr/bin/env python3
"""Regenerates MANIFEST.json from the table below (kept in one place so that it stays valid)."""
import json, os

CHECKS = {
 "C16": dict(level="model_checking", engine="E1-kani", design="DESIGN.md §2 C16",
   technique="bounded model checking of the real toktrie code with Kani/CBMC (symbolic bit-vectors, symbolic byte-level acceptors over trie tables dumped from the real builder)",
   text="Kani/CBMC decides, for every input inside the stated bounds (<=3-word bit vectors with symbolic size and contents; every transition-table acceptor with 2-3 states over vocabulary families built by the real TokTrie::from/filter; every u32 token id; every byte string <=3 bytes), that the bit-vector operations equal set operations and that the trie walk (add_bias / has_valid_extensions / token / token_id / token_len) equals a per-token test against the generator's own word list. Unwinding assertions are on; cover witnesses must be satisfied; a must-fail witness harness guards against vacuity.",
   note="Trusted: Kani's model of Rust/std, CBMC. Not decided: the trie builder executed symbolically (its output tables are checked instead), greedy_tokenize/chop_tokens (out of memory under CBMC), tokenizer adapters (toktrie_hf_tokenizers, toktrie_tiktoken, tokenizer_json.rs), vocabularies beyond the families."),
 "C08": dict(level="translation_validation", engine="E2-export-smt", design="DESIGN.md §3 C08",
   technique="SMT (z3: linear integers / 60-bit vectors for multipleOf) over the engine's own exported number-lexeme automaton vs an arithmetic oracle on a symbolic decimal literal; models replayed on the real Matcher",
   text="For each bounds tuple the real schema->regex->automaton pipeline runs natively and the solver decides, for every plain decimal literal within the digit bounds at once, that the automaton accepts it iff its value satisfies the bounds (and multipleOf); schemas rejected at compile time must have no satisfying literal. Every model is replayed on the real engine and judged by an independent exact-arithmetic oracle before it is reported.",
   note="Trusted: the lexer interpreter runs the exported table faithfully (E2 executes the table, not the interpreter); z3. Outside: literals longer than the digit bounds, exponent notation, negative zero, integer schemas with a fractional spelling (5.0)."),
 "C04": dict(level="translation_validation", engine="E2-export-smt", design="DESIGN.md §3 C04",
   technique="SAT/SMT product run (z3) of the engine's exported lexeme automaton and an independent reference DFA over a symbolic byte string, all prefixes at once; models replayed on the real Matcher",
   text="For each regex / Lark terminal expression (fixed corners + VERIF_SEED generator: classes, negated classes, dot, (?s:.), (?i), alternation, bounded/unbounded repetition, &, ~, %regex substring, 2-4 byte UTF-8) the solver decides over every byte string up to N bytes (bytes unconstrained) that acceptance and prefix viability of the engine's automaton equal those of a reference built independently (Thompson + subset construction over UTF-8 bytes, itself cross-checked against python re on every run).",
   note="Trusted: interpreter runs the exported automaton; reference construction (self-checked against python re). Outside: strings longer than N, automata above 3000 states, lazy/stop lexemes, Unicode \\w\\d\\s classes."),
}

NOT_APPLICABLE = {
}

PENDING = ["C01","C02","C03","C05","C06","C07","C09","C10","C11","C12","C13","C14","C15","C17","C18","C19","C20"]
PENDING_REASON = "check not built yet in this session (see DESIGN.md for the plan); listed here so that MANIFEST stays truthful at every commit"

def main():
    checks = []
    for pid, c in sorted(CHECKS.items()):
        checks.append(dict(property_id=pid, quick_cmd="./check %s quick" % pid, thorough_cmd="./check %s thorough" % pid,
            evidence_file="/verif/evidence/%s.json" % pid, replay_cmd_template="./check replay {path}", engine=c["engine"],
            level_claimed=dict(category=c["level"], text=c["text"], design_ref=c["design"]), level_note=c["note"], technique=c["technique"]))
    na = [dict(property_id=p, reason=r) for p, r in sorted(NOT_APPLICABLE.items())]
    for p in PENDING:
        if p not in CHECKS and p not in NOT_APPLICABLE:
            na.append(dict(property_id=p, reason=PENDING_REASON))
    m = dict(version=1,
        setup_cmd="./setup.sh",
        hooks=dict(guard="cfg(kani) / --cfg verif_dump, applied only to a scratch overlay copy of /repo (no hook commits in /repo)",
                   enable="each check rsyncs /repo's working tree into /var/tmp/llgv/<run> and appends `#[cfg(kani)] mod verif_kani;` child modules there; E2 builds /verif/export against /repo by path dependency",
                   baseline_off_cmd="cd /repo && cargo test --workspace --no-fail-fast --offline", source_commits=[], add_only=True),
        engines=[dict(name="E1-kani", path="/verif/kani", serves_properties=[p for p,c in CHECKS.items() if c["engine"].startswith("E1")], kind_free_text="Kani 0.68 / CBMC 6.11 bounded model checking of the real Rust code (overlay child modules)"),
                 dict(name="E2-export-smt", path="/verif/export", serves_properties=[p for p,c in CHECKS.items() if c["engine"].startswith("E2")], kind_free_text="native exporter of the engine's compiled artefacts (public API) + z3 encoders + native replay through Matcher")],
        checks=checks, not_applicable=na,
        notes="Exit codes: 0 held, 1 replayed violation (VIOLATION line), 2 inconclusive (timeout/OOM/build failure/non-reproducing model). VERIF_SEED and VERIF_TIER are honoured.")
    with open(os.path.join(os.path.dirname(os.path.abspath(__file__)), "MANIFEST.json"), "w") as f:
        json.dump(m, f, indent=1)
        f.write("\n")

main()
