#!/usr/bin/env python3
"""Regenerates MANIFEST.json from the table below (kept in one place so that it stays valid)."""
import json, os

CHECKS = {
 "C01": dict(level="model_checking", engine="E1-kani", design="DESIGN.md §8 (E1c) C01",
   technique="Kani/CBMC over whole-function source slices: ParserState::validate_tokens against a symbolic table acceptor (try_push_byte stub), Matcher::try_consume_tokens and TokenParser::{consume_token, apply_token, compute_mask_inner} against stub collaborators; reference = commit the tokens one by one",
   text="Validation / commit bookkeeping half only. For every 1-3 token sequence over a 4-token vocabulary with symbolic spellings, every 0-2 pending forced bytes and every table acceptor standing for try_push_byte, the real validate_tokens returns exactly the number of leading tokens that can be committed one by one (end-of-sequence counted exactly when nothing forced is pending and the state accepts); Matcher::try_consume_tokens commits exactly the validated prefix; a committed token appends exactly its bytes to the engine's and the parser's history; the mask carries the end-of-sequence bit whenever the state is accepting.",
   note="NOT decided: the first sentence of C01 (the walk's mask equals what the Earley interpreter accepts on commit: speculative walk with row reuse vs definitive application), canonical-tokenisation narrowing, numeric special tokens. Stub contracts are listed in the evidence."),
 "C11": dict(level="model_checking", engine="E1-kani", design="DESIGN.md §8 (E1c) C11",
   technique="Kani/CBMC over whole-function source slices of ParserState::{compute_bias, rollback, ...} and Parser::invalidate_bias_cache in a mock parser state whose walk / flush / eos answers are a symbolic function of (lexer state, ghost row content, pending bytes); differential: mask (possibly cached) vs mask after invalidation",
   text="Cache-protocol half. For every history of 0-2 definitive bytes, a mask, two operations out of {nothing, one more byte (same row or a new row), rollback(1), rollback(2)} and every stub answer table: the mask returned by the real compute_bias (cache lookup, walk, post-walk statements, cache update as in the current source) equals the mask it returns after the real invalidate_bias_cache(); a mask requested with a non-empty start neither reads nor writes the cache.",
   note="The stub contract (what a mask may depend on; rows rebuilt after a rollback may differ under the same index) is part of the claim. Outside: that the real walk is such a function, the Earley row cache, a fresh engine replaying the tokens."),
 "C12": dict(level="model_checking", engine="E1-kani", design="DESIGN.md §8 (E1c) C12",
   technique="Kani/CBMC over whole-function source slices of TokenParser::{consume_token, apply_token, check_stop, rollback, ...} re-hosted on a stub Earley parser (byte stack with symbolic accept / accepting answers) and a 4-token trie with symbolic token lengths; one inductive step from an arbitrary consistent state",
   text="TokenParser bookkeeping half. From any consistent state after 0-1 tokens, committing 1-2 tokens (each possibly end-of-sequence, either ending the sequence or consumed by the grammar as bytes; with or without the stop check) and rolling back as many restores token list, byte list, the parser's byte history, the token budget, the stop status and the per-state caches; rollback beyond the history or in a failed state is refused without effect.",
   note="Outside: ParserState::rollback's truncation against the Earley tables (its mask-cache invalidation is decided under C11), captures, equality of all later behaviour. scan_eos()==true (EOS ending a stop=\"\" lexeme) is assumed away: the engine refuses rollback for such grammars."),
 "C18": dict(level="model_checking", engine="E1-kani", design="DESIGN.md §8 (E1c) C18",
   technique="Kani/CBMC over whole-function source slices of the three protocol layers (TokenParser, Matcher, Constraint) over stub collaborators with symbolic answers and call logs; Kani on StopController's valid_utf8_len",
   text="Protocol half. TokenParser: once stopped nothing is accepted, validated or masked and nothing moves; check_stop stops exactly when accepting and (cannot advance or EOS committed) with the right reason; EOS in a non-accepting state is never dropped; the mask has the EOS bit whenever accepting and is never empty; out-of-range ids and the token budget fail as documented. Matcher: a failed call is permanent and later calls never reach the engine; consume/try_consume commit in order; compute_mask_or_eos after a stop yields exactly the EOS set. Constraint: stop result exactly when the engine stops, no mask / no commit reaches the engine after a stop, commit reports exactly the tokens committed. valid_utf8_len never splits a character.",
   note="Outside: that the text IS complete when the parser says accepting (Earley run time), panic capture (catch_unwind), the stop controller's regex search (derivre behind a mutex)."),
 "C02": dict(level="model_checking", engine="E1-kani", design="DESIGN.md §2 C02",
   technique="bounded model checking (Kani/CBMC) of the real TokTrie::add_bias over trie tables dumped from the real builder, with a symbolic byte-stack acceptor; differential against byte-at-a-time masks on the single-byte vocabulary",
   text="For every transition-table acceptor with 2-3 states, the real add_bias on a multi-byte vocabulary puts a token in the mask exactly when a loop of real add_bias calls on the single-byte vocabulary allows each of its bytes in turn (duplicates, prefix tokens, tokens ending inside a UTF-8 character included). Decides the trie-layer half of the second sentence of C02 only.",
   note="NOT decided: that ParserRecognizer is a function of its byte stack (lexeme boundaries inside a token, row reuse) and the first sentence of C02 — they need the Earley interpreter under the solver, which does not fit (see DESIGN §1)."),
 "C03": dict(level="translation_validation", engine="E2-export-smt", design="DESIGN.md §3 C03",
   technique="SAT queries (z3) on the engine's exported artefacts: trap-set query per lexer automaton, unproductive-symbol query per compiled grammar; exact for the tables",
   text="For every lexer automaton materialised by the engine (regex corpus, number ranges, JSON strings with length/pattern/format) the solver shows that no reachable non-dead state set is closed under transitions without containing an accepting state; for every compiled grammar (JSON schemas with unsatisfiable pieces in optional positions, structure schemas, Lark) that no reachable symbol is unproductive. A witness path is replayed on the real Matcher.",
   note="Compile level only. The run-time half (rows listing scannable lexemes, lexer restriction, NoExtensionBias) needs the parser and is outside. User grammars that are themselves unproductive (empty terminal by construction) are excluded with the independent reference."),
 "C04": dict(level="translation_validation", engine="E2-export-smt", design="DESIGN.md §3 C04",
   technique="SAT/SMT product run (z3) of the engine's exported lexeme automaton and an independent reference DFA over a symbolic byte string, all prefixes at once; models replayed on the real Matcher",
   text="For each regex / Lark terminal expression (fixed corners + VERIF_SEED generator: classes, negated classes, dot, (?s:.), (?i), alternation, bounded/unbounded repetition, &, ~, %regex substring, 2-4 byte UTF-8) the solver decides over every byte string up to N bytes (bytes unconstrained) that acceptance and prefix viability of the engine's automaton equal those of a reference built independently (Thompson + subset construction over UTF-8 bytes, itself cross-checked against python re on every run).",
   note="Trusted: interpreter runs the exported automaton; reference construction (self-checked against python re). Outside: strings longer than N, automata above 3000 states, lazy/stop lexemes, Unicode \\w\\d\\s classes."),
 "C05": dict(level="translation_validation", engine="E2-export-smt+E1-kani", design="DESIGN.md §3 C05",
   technique="two-sided CYK encoding in z3 (compiled rule table vs reference CFG on a symbolic terminal word), SAT least-fixed-point query for the nullable flags, Kani for ParamExpr/ParamCond; counterexamples replayed on the real Matcher",
   text="For generated and hand-written Lark grammars in the confusion-free fragment the compiled rule table (after the real front end, builder, optimize and CGrammar::from_grammar) derives exactly the words of a reference CFG built from the generator's AST, for every terminal word up to N; the nullable flags are shown to be the least fixed point of the rules; ParamRef/ParamExpr/ParamCond evaluation equals docs/parametric.md for every 64-bit value and bit range.",
   note="Compile level. Earley scan/predict/complete at run time and therefore 'a token is allowed exactly when...' are NOT decided; a counterexample is replayed on the real Matcher, the absence of one says nothing about the interpreter."),
 "C06": dict(level="translation_validation", engine="E2-export-smt", design="DESIGN.md §3 C06/C07",
   technique="two-sided CYK encoding in z3: compiled JSON grammar (lexemes expanded into their atom sets) vs reference CFG of valid instances, on a symbolic atom word; models judged by python jsonschema and replayed on the real Matcher",
   text="For seeded and hand-written schemas of the structural subset the solver decides that no atom word up to N is derived by the compiled grammar but not by the reference (soundness direction); the additional-key lexeme is checked against the declared keys. A model is reported only if python jsonschema rejects the concretised JSON text and the real Matcher accepts it.",
   note="Structure level: leaves are atoms; formats, pattern, patternProperties, flexible whitespace, numeric leaves (C08), lengths (C09) and the interpreter are outside."),
 "C07": dict(level="translation_validation", engine="E2-export-smt", design="DESIGN.md §3 C06/C07",
   technique="same CYK query, completeness direction (reference derives, compiled grammar does not); models judged by python jsonschema and replayed on the real Matcher",
   text="For the same schema family the solver decides that every canonical compact serialisation (declared keys in schema order, then additional keys) of a valid instance up to N atoms is derived by the compiled grammar; a satisfiable schema of the subset that fails to compile is a finding.",
   note="Structure level only; 'every vocabulary used to tokenise the instance' and the whitespace options are outside (interpreter)."),
 "C08": dict(level="translation_validation", engine="E2-export-smt+E1-kani", design="DESIGN.md §3 C08",
   technique="SMT (z3: linear integers / 60-bit vectors for multipleOf) over the engine's own exported number-lexeme automaton vs an arithmetic oracle on a symbolic decimal literal; models replayed on the real Matcher; Kani for normalize_integer_bounds / keyword selection / lcm",
   text="For each bounds tuple the real schema->regex->automaton pipeline runs natively and the solver decides, for every plain decimal literal within the digit bounds at once, that the automaton accepts it iff its value satisfies the bounds (and multipleOf); schemas rejected at compile time must have no satisfying literal. Every model is replayed on the real engine and judged by an independent exact-arithmetic oracle before it is reported.",
   note="Trusted: the lexer interpreter runs the exported table faithfully (E2 executes the table, not the interpreter); z3. Outside: literals longer than the digit bounds, exponent notation, negative zero, integer schemas with a fractional spelling (5.0)."),
 "C09": dict(level="translation_validation", engine="E2-export-smt", design="DESIGN.md §3 C09",
   technique="automaton product encoding (regex / terminal / JSON string length) and CYK encoding (rule level, minItems/maxItems, min/maxProperties) in z3 against count oracles; automaton-level models replayed on the real Matcher",
   text="For (m,n) pairs up to the bound (crossing the n=12 and repeat_exact>8 shape switches), {m,}, *, +, ? at regex, terminal and rule level, nested repetitions, JSON minItems/maxItems, min/maxProperties and minLength/maxLength, the solver decides that exactly the counts m..n are admitted for every count 0..n+3 (all prefixes of one symbolic word).",
   note="Rule level compares the compiled rule table as a CFG (Earley run outside). String length counts Unicode scalar values, escapes as one, with the documented default escape set."),
 "C10": dict(level="translation_validation", engine="E2-export-smt", design="DESIGN.md §3 C10",
   technique="SAT product run (z3): for every (lexer state, slice) with a positive real check_subsume verdict, search a slice-language string that kills the lexeme automaton from that state, or — in joint states where several lexemes are live — that makes the lexer end the lexeme before the token's last byte (symbolic start state and bytes); joint-state models are replayed natively as sliced-vs-unsliced masks",
   text="The exporter builds the lexer as to_cgrammar does (slice regexes as extra lexemes), asks the real subsume_possible/check_subsume for every state of every lexeme automaton, and the solver shows for all positive verdicts at once that no string of the slice language up to the longest token dies from that state. The same is done for the joint automaton of all grammar lexemes and of every pair (JSON schemas and Lark grammars with lazy and greedy lexemes live together), where a positive verdict must additionally never let a token of the slice pass through a state in which the lexer ends the lexeme at once (StateDesc::lazy_accepting) before its last byte. Negative verdicts serve as vacuity twins.",
   note="Also decided at table level: the per-slice masks and remainder tries precomputed by from_topo_node (dumped natively for a synthetic multi-byte vocabulary) cover every token of the slice whichever children applied (symbolic token id). The control flow of TokenizerSlice::apply at run time and bit-for-bit mask equality need a parser state and are outside."),
 "C13": dict(level="model_checking", engine="E1-kani+E2-export-smt", design="DESIGN.md §2 C13",
   technique="Kani/CBMC on add_bias with a symbolic start prefix and has_valid_extensions (symbolic acceptor); the probe of ParserState::forced_byte as a source slice against a mock recogniser with a symbolic viable-byte set; SAT query on every exported lexer state for the soundness of the next-byte hint forced_byte trusts",
   text="Left-over forced bytes as mandatory prefix of the next mask: add_bias(r, set, start) equals the per-token test for every acceptor and every 1-2 byte start; has_valid_extensions agrees. K13.3: the probe statements of forced_byte (cut from the current source) answer Some(b) exactly when b is the only viable byte, for all 2^256 viable sets and every lexer hint. E2-13.3: ForcedByte(c) implies every other byte and end-of-input are dead, ForcedEOI implies every byte is dead, for every state of every exported automaton.",
   note="chop_tokens as a whole does not fit CBMC (12.9 GB at 400 s); its token/byte accounting loop is decided as a source slice with symbolic token lengths. K13.4 decides the byte accounting of process_prompt (source slice, mock tokenizer with one token per byte). try_push_byte behind the probe, force_bytes, ff_tokens need the parser state and are outside."),
 "C15": dict(level="translation_validation", engine="E2-export-smt+E1-kani", design="DESIGN.md §3 C15",
   technique="two-sided CYK encoding in z3 on Grammar::to_string before/after the real Grammar::optimize(), shared symbolic terminal word; Kani for the union-find of expand_shortcuts",
   text="For hand-written grammars, Lark snippets found in /repo's tests and docs, JSON schemas and seeded random grammars (chains, single/multi users, self reference, captures, max_tokens, nullable rules) the solver decides that before/after grammars derive the same terminal words up to N and that capture/max_tokens symbols survive; uf_find/uf_union/uf_compress_all are checked on every acyclic parent array of 6 symbols.",
   note="Parametric grammars: rule conditions compared as multisets, language on the skeleton. Models are confirmed by an independent concrete CYK recogniser on the exported grammars."),
 "C16": dict(level="model_checking", engine="E1-kani", design="DESIGN.md §2 C16",
   technique="bounded model checking of the real toktrie code with Kani/CBMC (symbolic bit-vectors, symbolic byte-level acceptors over trie tables dumped from the real builder)",
   text="Kani/CBMC decides, for every input inside the stated bounds (<=3-word bit vectors with symbolic size and contents; every transition-table acceptor with 2-3 states over vocabulary families built by the real TokTrie::from/filter; every u32 token id; every byte string <=3 bytes), that the bit-vector operations equal set operations and that the trie walk (add_bias / has_valid_extensions / token / token_id / token_len) equals a per-token test against the generator's own word list. Unwinding assertions are on; cover witnesses must be satisfied; a must-fail witness harness guards against vacuity.",
   note="Trusted: Kani's model of Rust/std, CBMC. Not decided: the trie builder executed symbolically (its output tables are checked instead), greedy_tokenize/chop_tokens (out of memory under CBMC), tokenizer adapters (toktrie_hf_tokenizers, toktrie_tiktoken, tokenizer_json.rs), vocabularies beyond the families."),
 "C17": dict(level="model_checking", engine="E1-kani", design="DESIGN.md §2 C17",
   technique="Kani/CBMC over a source slice of ffi_par.rs (mask copy statements cut from the current source into a mock environment over the real SimpleVob/StepResult), plus slice-bound and token-range kernels of ffi.rs",
   text="For vocabulary sizes at the 32-bit boundaries, every mask content, every eos id, destination buffers smaller than / equal to / larger than the mask and the three result kinds: no out-of-bounds read of the mask or write of the destination, destination words equal the mask words then zeros (plus the EOS bit on stop), no bit at or above the vocabulary size.",
   note="Buffer half only: equality of C and Rust results, pointer lifetimes and rayon scheduling are outside. V and result kind concrete per instance because Kani mis-models write_bytes with a symbolic count."),
 "C19": dict(level="model_checking", engine="E1-kani+E2-export-smt", design="DESIGN.md §2 C19",
   technique="Kani/CBMC over the range-negation loop (source slice), contains_token, SimpleVob::allow_range and the post-walk statements of compute_bias (source slice); SAT run over every exported text-lexeme automaton with a symbolic byte string containing the marker byte 0xFF",
   text="Negated token ranges are sorted, disjoint, inside the vocabulary and contain a token iff no input range does (<=3 ranges, every u32 vocabulary size); contains_token equals range membership; allow_range adds exactly the bits of the range to a vector with symbolic previous content; every text lexeme automaton of the corpus is dead after any string containing 0xFF.",
   note="Range/marker half: add_numeric_token / flush_and_check_numeric at run time and marker-aware tokenisation are outside; the post-walk statements of compute_bias (bare-marker removal, ranges, EOS) are decided as a source slice in a mock parser state. The sort call inside the slice is cut out (std sort does not terminate under CBMC)."),
 "C20": dict(level="model_checking", engine="E1-kani", design="DESIGN.md §2 C20",
   technique="Kani/CBMC panic/overflow/bounds checking of arithmetic and index kernels over all inputs within stated bounds",
   text="Freedom from panics, arithmetic overflow and out-of-bounds accesses for every input of the listed kernels (Decimal::new/checked_lcm/gcd64, normalize_integer_bounds, min/max selection, ParamRef/ParamExpr/ParamCond, Item packing, valid_utf8_len incl. its functional post-condition, TrieNode packing, token_len).",
   note="Kernel level ONLY. Whole-program robustness against malformed grammar text / schemas / regexes, resource limits, hangs and sticky failure are not decided by this technique."),
}

NOT_APPLICABLE = {
 "C14": "the quantifier is over thread schedules; Kani rejects concurrent code and CBMC's Rust path has no thread model; a hand-written model of the mutex protocol would not be the real code.",
}

PENDING = []
PENDING_REASON = ""

def main():
    checks = []
    for pid, c in sorted(CHECKS.items()):
        checks.append(dict(property_id=pid, quick_cmd="./check %s quick" % pid, thorough_cmd="./check %s thorough" % pid,
            evidence_file="/verif/evidence/%s.json" % pid, replay_cmd_template="./check replay {path}", engine=c["engine"],
            level_claimed=dict(category=c["level"], text=c["text"], design_ref=c["design"]), level_note=c["note"], technique=c["technique"]))
    na = [dict(property_id=p, reason=r) for p, r in sorted(NOT_APPLICABLE.items())]
    for p in PENDING:
        if p not in CHECKS and p not in NOT_APPLICABLE:
            na.append(dict(property_id=p, reason=PENDING_REASON))
    m = dict(version=1,
        setup_cmd="./setup.sh",
        hooks=dict(guard="cfg(kani) / --cfg verif_dump, applied only to a scratch overlay copy of /repo (no hook commits in /repo)",
                   enable="each check rsyncs /repo's working tree into /var/tmp/llgv/<run> and appends `#[cfg(kani)] mod verif_kani;` child modules there; E2 builds /verif/export against /repo by path dependency",
                   baseline_off_cmd="cd /repo && cargo test --workspace --no-fail-fast --offline", source_commits=[], add_only=True),
        engines=[dict(name="E1-kani", path="/verif/kani", serves_properties=[p for p,c in CHECKS.items() if c["engine"].startswith("E1")], kind_free_text="Kani 0.68 / CBMC 6.11 bounded model checking of the real Rust code (overlay child modules)"),
                 dict(name="E2-export-smt", path="/verif/export", serves_properties=[p for p,c in CHECKS.items() if c["engine"].startswith("E2")], kind_free_text="native exporter of the engine's compiled artefacts (public API) + z3 encoders + native replay through Matcher")],
        checks=checks, not_applicable=na,
        notes="Exit codes: 0 held, 1 replayed violation (VIOLATION line), 2 inconclusive (timeout/OOM/build failure/non-reproducing model). VERIF_SEED and VERIF_TIER are honoured.")
    with open(os.path.join(os.path.dirname(os.path.abspath(__file__)), "MANIFEST.json"), "w") as f:
        json.dump(m, f, indent=1)
        f.write("\n")

main()
