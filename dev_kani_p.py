#!/usr/bin/env python3
"""dev helper for the parser-crate overlay. usage: dev_kani_p.py mod1,mod2 [pattern...]"""
import sys, os
sys.path.insert(0, os.path.dirname(os.path.abspath(__file__)))
from vlib import parser_props as pp, e1
mods = sys.argv[1].split(",")
ov = pp.prepare("devp", mods)
print("overlay", ov.dir)
specs = []
for m in mods:
    for g, names in pp.HARNESSES[m].items():
        for n in names:
            specs.append(dict(name=pp.MODS[m][2] + n, expect="fail" if g.endswith("_fail") else "pass"))
pats = sys.argv[2:]
sel = [s for s in specs if any(p in s["name"] for p in pats)] if pats else specs
res, logp, wall, bf = e1.run_kani(ov, "llguidance", [s["name"] for s in sel], jobs=int(os.environ.get("JOBS", "12")), harness_timeout_s=int(os.environ.get("HT", "600")), stubbing=True, logname="devp")
print("wall", round(wall, 1), "build_failed", bf)
for s in sel:
    r = res[s["name"]]
    print("%-45s %-8s covers %d/%d checks %d solver %.1fs dur %.1fs %s" % (r.short, r.status, r.covers_sat, r.covers_total, r.checks_total, r.solver_s, r.duration_s, [(f["description"][:70], f["function"][-40:]) for f in r.failed[:3]]))
if bf:
    os.system("grep -v '^warning' %s | grep -B2 -A14 '^error' | head -120" % logp)
if not os.environ.get("KEEP"):
    ov.cleanup()
