"""Shared plumbing for the /verif checks: paths, evidence, known findings, exit codes."""
import json
import os
import shutil
import subprocess
import sys
import time
import uuid

VERIF = os.path.dirname(os.path.dirname(os.path.abspath(__file__)))
REPO = os.environ.get("VERIF_REPO", "/repo")
CACHE = os.path.join(VERIF, ".cache")
SCRATCH_ROOT = os.environ.get("VERIF_SCRATCH", "/var/tmp/llgv")
EVIDENCE_DIR = os.environ.get("VERIF_EVIDENCE_DIR", os.path.join(VERIF, "evidence"))
REPLAY_DIR = os.environ.get("VERIF_REPLAY_DIR", os.path.join(VERIF, "replays"))
KNOWN_FINDINGS = os.path.join(VERIF, "known_findings.json")

EXIT_OK = 0
EXIT_VIOLATION = 1
EXIT_INCONCLUSIVE = 2


def seed():
    try:
        return int(os.environ.get("VERIF_SEED", "0"))
    except ValueError:
        return 0


def tier(default="quick"):
    t = os.environ.get("VERIF_TIER", default)
    return t if t in ("quick", "thorough") else default


def log(*a):
    print("[verif]", *a, file=sys.stderr, flush=True)


def base_env():
    env = dict(os.environ)
    env["CARGO_NET_OFFLINE"] = "true"
    env.pop("RUSTFLAGS", None)
    return env


def new_scratch(tag):
    os.makedirs(SCRATCH_ROOT, exist_ok=True)
    d = os.path.join(SCRATCH_ROOT, "%s-%d-%s" % (tag, os.getpid(), uuid.uuid4().hex[:6]))
    os.makedirs(d)
    return d


def rm_scratch(d):
    if d and d.startswith(SCRATCH_ROOT) and os.path.isdir(d):
        shutil.rmtree(d, ignore_errors=True)


def repo_head():
    try:
        h = subprocess.run(["git", "-C", REPO, "rev-parse", "--short", "HEAD"], capture_output=True, text=True).stdout.strip()
        dirty = subprocess.run(["git", "-C", REPO, "status", "--porcelain", "-uno"], capture_output=True, text=True).stdout.strip()
        return h + ("+dirty" if dirty else "")
    except Exception:
        return "unknown"


# --------------------------------------------------------------------------- known findings
def load_known():
    """known_findings.json: {"findings": [{"property","key","status": "known"|"fixed","what",...}]}
    Only status == "known" entries suppress (and print KNOWN-FINDING); "fixed" entries suppress nothing."""
    if not os.path.exists(KNOWN_FINDINGS):
        return []
    with open(KNOWN_FINDINGS) as f:
        return json.load(f).get("findings", [])


def known_for(prop):
    return [k for k in load_known() if k.get("property") == prop and k.get("status") == "known"]


def match_known(prop, key):
    for k in known_for(prop):
        if k.get("key") == key:
            return k
    return None


# --------------------------------------------------------------------------- evidence
def write_evidence(prop, level, coverage, wall_s, violations, assumptions, extra=None):
    os.makedirs(EVIDENCE_DIR, exist_ok=True)
    ev = {
        "property_id": prop,
        "tier": tier(),
        "seed": seed(),
        "level": level,
        "coverage": coverage,
        "assumptions": assumptions,
        "wall_s": round(wall_s, 2),
        "violations": violations,
        "repo_head": repo_head(),
    }
    if extra:
        ev.update(extra)
    p = os.path.join(EVIDENCE_DIR, prop + ".json")
    tmp = p + ".tmp%d" % os.getpid()
    with open(tmp, "w") as f:
        json.dump(ev, f, indent=1, sort_keys=False, default=str)
        f.write("\n")
    os.replace(tmp, p)
    return p


def save_replay(prop, name, payload):
    d = os.path.join(REPLAY_DIR, prop)
    os.makedirs(d, exist_ok=True)
    p = os.path.join(d, name + ".json")
    with open(p, "w") as f:
        json.dump(payload, f, indent=1, default=str)
        f.write("\n")
    return p


class Timer:
    def __init__(self):
        self.t0 = time.time()

    def s(self):
        return time.time() - self.t0


def settle(prop, inconclusive, total):
    """Splits the inconclusive notes of a run: solver time-outs ("solver unknown …") are tolerated up to 1 % of the cases (they are printed as UNDECIDED, listed in the evidence and not part of the claim of the run); anything else, or more time-outs than that, makes the run inconclusive (returns True)."""
    und = [x for x in inconclusive if x.startswith("solver unknown") or x.startswith("solver returned unknown")]
    hard = [x for x in inconclusive if x not in und]
    if hard or len(und) > max(1, total // 100):
        print("INCONCLUSIVE property=%s: %s" % (prop, (hard or und)[0][:300]))
        return True
    for u in und:
        print("UNDECIDED (solver time-out, case not part of the claim of this run): %s" % u[:200])
    return False
