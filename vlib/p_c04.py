"""C04 — a regular-expression constraint admits exactly the regex's language. E2: exported lexeme automaton vs an independent
reference DFA, compared by the solver on a symbolic byte string (every prefix at once), models replayed on the real Matcher."""
import json
import random
import re
import time

import z3

from . import e2, rxref
from .automaton import Aut, SymString, encode_run, merge_classes, model_bytes, state_in
from .common import (EXIT_INCONCLUSIVE, EXIT_OK, EXIT_VIOLATION, Timer, log, match_known, save_replay, seed, settle, tier, write_evidence)

FIXED = [
    # hand-written cases (regex syntax corners named in the property)
    ("regex", r"a[bc]+d?"), ("regex", r"(ab|a)*c"), ("regex", r"[^a-c]x"), ("regex", r".a"), ("regex", r"(?s:.)a"),
    ("regex", r"a{2,4}b{0,2}"), ("regex", r"(a|b){3}"), ("regex", r"é+x"), ("regex", r"[à-ï]{1,2}"), ("regex", r"(?i:abc)d"),
    ("regex", r"[^é]"), ("regex", r"€|e"), ("regex", r"(a*)*b"), ("regex", r"a{3,}"), ("regex", r"[a-c0-3]{2}"),
]


def fixed_nodes():
    from .rxref import Lit, Cls, Dot, Cat, Alt, Rep, CaseI
    o = ord
    return [
        Cat([Lit("a"), Rep(Cls([(o("b"), o("c"))]), 1, None), Rep(Lit("d"), 0, 1)]),
        Cat([Rep(Alt([Lit("ab"), Lit("a")]), 0, None), Lit("c")]),
        Cat([Cls([(o("a"), o("c"))], neg=True), Lit("x")]),
        Cat([Dot(False), Lit("a")]),
        Cat([Dot(True), Lit("a")]),
        Cat([Rep(Lit("a"), 2, 4), Rep(Lit("b"), 0, 2)]),
        Rep(Alt([Lit("a"), Lit("b")]), 3, 3),
        Cat([Rep(Lit("é"), 1, None), Lit("x")]),
        Rep(Cls([(0xE0, 0xEF)]), 1, 2),
        Cat([CaseI("abc"), Lit("d")]),
        Cls([(0xE9, 0xE9)], neg=True),
        Alt([Lit("€"), Lit("e")]),
        Cat([Rep(Rep(Lit("a"), 0, None), 0, None), Lit("b")]),
        Rep(Lit("a"), 3, None),
        Rep(Cls([(o("a"), o("c")), (o("0"), o("3"))]), 2, 2),
    ]


def gen_cases(tr, sd):
    rng = random.Random(4000 + sd)
    cases = []
    for (kind, text), node in zip(FIXED, fixed_nodes()):
        cases.append(dict(kind=kind, text=text, node=node, origin="fixed"))
    for lit in ["v1.0", "a|b", "x+y", "a.b*", "q?", "c[d", "e(f", "^g$"]:
        node = rxref.CaseI(lit)
        node.flag_string = True
        cases.append(dict(kind="lark", text="start: T\nT: %s\n" % rxref.to_lark(node), node=node, origin="fixed-flagged-string"))
        node2 = rxref.Cat([rxref.Lit("k"), rxref.CaseI(lit)])
        node2.lark = True
        node2.xs[1].flag_string = True
        cases.append(dict(kind="lark", text="start: T\nT: %s\n" % rxref.to_lark(node2), node=node2, origin="fixed-flagged-string"))
    for src in ["abbbc", "baaab", "abcabcab", "aabaab", "banana", "the cat sat on the mat"]:
        mode = "words" if " " in src else "chars"
        chunks = rxref._split_words(src) if mode == "words" else list(src)
        node = rxref.Substr(chunks, mode, src)
        cases.append(dict(kind="lark", text="start: T\nT: %s\n" % rxref.to_lark(node), node=node, origin="fixed-substring"))
    n = 240 if tr == "quick" else 1200
    for i in range(n):
        c = rxref.gen_case(rng, i)
        c["origin"] = "seed%d" % sd
        cases.append(c)
    return cases


def find_lexeme(res):
    """(lexeme index, grammar-level nullable): the grammar of `start: T` has exactly one terminal; a nullable terminal additionally gets
    an epsilon alternative at grammar level"""
    cg = res.get("cgrammar", "") or ""
    ks = set(int(x) for x in re.findall(r"\[(\d+)\]", cg))
    if len(ks) != 1:
        return None, False
    return ks.pop(), bool(re.search(r"^start\s+⇦\s+ϵ", cg, re.M))


def _work(args):
    idx, case, res, N = args
    out = dict(idx=idx, status="ok", queries=0, solver_s=0.0, cands=[], note=None, twin=None, states=None)
    node = case["node"]
    try:
        ref = rxref.compile_dfa(node)
    except ValueError as ex:
        out["status"] = "skip"
        out["note"] = "reference too large: %s" % ex
        return out
    rng = random.Random(idx)
    bad = rxref.self_check(node, ref, rng, 200)
    if bad:
        out["status"] = "refbug"
        out["note"] = "reference DFA disagrees with python re on %r" % (bad[0],)
        return out
    if not res.get("ok"):
        out["status"] = "compile_error"
        out["note"] = str(res.get("error"))[:300]
        return out
    lex, g_nullable = find_lexeme(res)
    auts = res.get("automata") or []
    if lex is None or lex >= len(auts) or "error" in auts[lex]:
        out["status"] = "skip"
        out["note"] = "no automaton: %s" % (auts[lex].get("error") if lex is not None and lex < len(auts) else "lexeme not found in %r" % res.get("cgrammar"))
        return out
    a_llg = Aut(auts[lex])
    a_ref = Aut(ref.to_aut_json())
    out["states"] = (a_llg.n, a_ref.n)
    classes = merge_classes([a_llg, a_ref])
    if case.get("alphabet"):
        classes = [(b, b) for b in sorted(set(case["alphabet"]))]
    sym = SymString(N)
    c1, s1 = encode_run(a_llg, sym, classes, "l")
    c2, s2 = encode_run(a_ref, sym, classes, "r")
    acc1 = [q for q in range(a_llg.n) if lex in a_llg.acc[q]]
    acc2 = [q for q in range(a_ref.n) if a_ref.acc[q]]
    s = z3.Solver()
    s.set("timeout", 120000)
    s.add(*c1)
    s.add(*c2)
    if case.get("alphabet"):
        for b in sym.bytes:
            s.add(z3.Or(*[b == x for x in case["alphabet"]]))
    diffs = []
    for k in range(N + 1):
        # accepted as complete after k bytes / still a viable prefix after k bytes (reference automaton is trimmed: alive == state != 0)
        eng_acc = state_in(s1[k], acc1)
        if k == 0 and g_nullable:
            eng_acc = z3.BoolVal(True)
        diffs.append(z3.Xor(eng_acc, state_in(s2[k], acc2)))
        diffs.append(z3.Xor(z3.Not(s1[k][0]) if not z3.is_false(s1[k][0]) else z3.BoolVal(True), z3.Not(s2[k][0]) if not z3.is_false(s2[k][0]) else z3.BoolVal(True)))
    s.push()
    s.add(z3.Or(*diffs))
    t0 = time.time()
    r = s.check()
    out["solver_s"] += time.time() - t0
    out["queries"] += 1
    if r == z3.sat:
        bs = model_bytes(s.model(), sym)
        out["cands"].append(bs)
    elif r != z3.unsat:
        out["status"] = "unknown"
    s.pop()
    # vacuity twin: reference with its acceptance flipped on one reachable state must be distinguishable
    if idx % 7 == 0 and acc2:
        s.push()
        flipped = [q for q in acc2[1:]]
        td = [z3.Xor(state_in(s1[k], acc1), state_in(s2[k], flipped)) for k in range(N + 1)]
        s.add(z3.Or(*td))
        t0 = time.time()
        r2 = s.check()
        out["solver_s"] += time.time() - t0
        out["queries"] += 1
        out["twin"] = str(r2)
        s.pop()
    return out


def longest_viable(dfa, bs):
    good = dfa.coreach()
    q = dfa.init
    k = 0
    if q not in good:
        return 0, []
    accs = [q in dfa.acc]
    for b in bs:
        q = dfa.tr[q][b]
        if q not in good:
            break
        k += 1
        accs.append(q in dfa.acc)
    return k, accs


def run():
    from concurrent.futures import ProcessPoolExecutor
    tm = Timer()
    tr, sd, prop = tier(), seed(), "C04"
    N = 8 if tr == "quick" else 12
    cases = gen_cases(tr, sd)
    inconclusive = []
    try:
        jobs = [dict(op="compile", kind=c["kind"], text=c["text"], want=["cgrammar", "lexemes", "automata"], max_states=3000) for c in cases]
        results = e2.run_jobs(jobs)
    except RuntimeError as ex:
        write_evidence(prop, "translation_validation", dict(evaluations=1, distinct_nontrivial=0, samples=["exporter build failed"]), tm.s(), 0, [])
        print("INCONCLUSIVE property=%s: %s" % (prop, str(ex)[:500]))
        return EXIT_INCONCLUSIVE
    stats = dict(cases=len(cases), decided=0, skipped=0, compile_errors=0, queries=0, solver_s=0.0, twins=0, twins_sat=0, refbugs=0, unknown=0)
    cands = []
    samples = []
    work = [(i, dict(kind=c["kind"], text=c["text"], node=c["node"]), results[i], N) for i, c in enumerate(cases)]
    with ProcessPoolExecutor(max_workers=14) as ex:
        for o in ex.map(_work, work, chunksize=2):
            i = o["idx"]
            stats["queries"] += o["queries"]
            stats["solver_s"] += o["solver_s"]
            if o["status"] == "skip":
                stats["skipped"] += 1
            elif o["status"] == "refbug":
                stats["refbugs"] += 1
                inconclusive.append("case %d %r: %s" % (i, cases[i]["text"], o["note"]))
            elif o["status"] == "compile_error":
                stats["compile_errors"] += 1
                # a regex of the supported syntax that does not compile is a completeness failure of the constraint
                cands.append((i, None, o["note"]))
            elif o["status"] == "unknown":
                stats["unknown"] += 1
                inconclusive.append("solver unknown on case %d %r" % (i, cases[i]["text"]))
            else:
                stats["decided"] += 1
            for bs in o["cands"]:
                cands.append((i, bs, None))
            if o["twin"] is not None:
                stats["twins"] += 1
                if o["twin"] == "sat":
                    stats["twins_sat"] += 1
            if len(samples) < 12 and i % max(1, len(cases) // 10) == 0:
                samples.append(dict(kind=cases[i]["kind"], text=cases[i]["text"], automaton_states_engine_vs_reference=o["states"], status=o["status"], string_bound=N))
    if stats["twins"] and stats["twins_sat"] < stats["twins"] * 0.5:
        inconclusive.append("vacuity twins: only %d of %d perturbed references were distinguishable" % (stats["twins_sat"], stats["twins"]))
    # ---- replay
    rjobs = []
    for (i, bs, note) in cands:
        if bs is not None:
            rjobs.append(dict(op="replay", kind=cases[i]["kind"], text=cases[i]["text"], bytes=bs))
    rres = e2.run_jobs(rjobs) if rjobs else []
    viol = []
    nonrepro = 0
    ri = 0
    for (i, bs, note) in cands:
        c = cases[i]
        if bs is None:
            key = "compile-error|" + ("lark-op" if c["kind"] == "lark" else "regex")
            viol.append((key, dict(property=prop, kind="supported regex rejected at compile time", grammar_kind=c["kind"], text=c["text"], error=note)))
            continue
        rr = rres[ri]
        ri += 1
        ref = rxref.compile_dfa(c["node"])
        k_ref, accs_ref = longest_viable(ref, bs)
        if not rr.get("ok"):
            nonrepro += 1
            continue
        k_eng = rr.get("consumed")
        acc_eng = list(rr.get("acc_trace") or [])
        if rr.get("all"):
            acc_eng.append(bool(rr.get("accepting")))
        differ = None
        if k_eng != k_ref:
            differ = "viable prefix: engine consumes %d bytes, reference %d" % (k_eng, k_ref)
        else:
            for k in range(min(len(acc_eng), len(accs_ref))):
                if acc_eng[k] != accs_ref[k]:
                    differ = "complete after %d bytes: engine %s, reference %s" % (k, acc_eng[k], accs_ref[k])
                    break
        if differ:
            feats = feature_key(c["node"])
            key = "%s|%s" % ("prefix" if differ.startswith("viable") else "accept", feats)
            viol.append((key, dict(property=prop, grammar_kind=c["kind"], text=c["text"], bytes=bs, as_text=bytes(bs).decode("utf-8", "replace"), difference=differ)))
        else:
            nonrepro += 1
    if nonrepro:
        inconclusive.append("%d solver models did not reproduce on the real engine (export/encoder problem)" % nonrepro)
    reported = 0
    seen = set()
    known_hits = []
    for key, payload in viol:
        if key in seen:
            continue
        seen.add(key)
        k = match_known(prop, key)
        if k:
            print("KNOWN-FINDING: property=%s %s (%s)" % (prop, k.get("what"), key))
            known_hits.append(key)
            continue
        payload["key"] = key
        rp = save_replay(prop, "c04_%d" % reported, payload)
        print("VIOLATION property=%s replay=%s" % (prop, rp))
        log("  ", json.dumps(payload, default=str, ensure_ascii=False)[:500])
        reported += 1
    cov = dict(
        programs=stats["decided"], disagreements_checked=len(cands), samples=samples or [dict(note="none")],
        tier=tr, cases=len(cases), decided=stats["decided"], skipped_too_large=stats["skipped"], compile_errors=stats["compile_errors"],
        queries=stats["queries"], solver_s=round(stats["solver_s"], 2), vacuity_twins="%d/%d sat" % (stats["twins_sat"], stats["twins"]),
        reference_self_check_failures=stats["refbugs"],
        functions_encoded=["api.rs GrammarWithLexer::from_regex + regex_rewrite.rs regex_to_lark", "lark/lexer.rs, lark/parser.rs, lark/compiler.rs do_token_atom/do_token_expr/do_token_expansions, compile_lark_regex",
                           "substring.rs", "grammar_builder.rs RegexBuilder", "earley/lexerspec.rs add_*lexeme", "derivre parser + derivatives",
                           "earley/regexvec.rs initial_state/transition/transition_inner/compute_state_desc (table materialised by the engine)"],
        bounds=dict(string_bytes=N, bytes="0..255 unconstrained", max_automaton_states=3000),
        known_findings_reported=known_hits, inconclusive=inconclusive[:20],
    )
    assumptions = [
        "the lexer/parser interpreter runs the exported automaton faithfully (outside E2's reach); every counterexample is replayed through the real Matcher over the single-byte vocabulary",
        "reference = independent Thompson/subset construction over UTF-8 bytes, itself cross-checked against python re on 200 random strings per regex on every run",
        "strings longer than the bound, regexes whose automaton exceeds 3000 states, lazy/stop lexemes, \\w \\d \\s Unicode classes and case-insensitive k/s are outside the claim",
    ]
    write_evidence(prop, "translation_validation", cov, tm.s(), reported, assumptions)
    if reported:
        return EXIT_VIOLATION
    if settle(prop, inconclusive, len(cases)):
        return EXIT_INCONCLUSIVE
    print("OK property=%s tier=%s cases=%d decided=%d queries=%d (%.0fs)" % (prop, tr, len(cases), stats["decided"], stats["queries"], tm.s()))
    return EXIT_OK


def feature_key(node):
    kinds = set()

    def walk(n):
        kinds.add(n.kind)
        for x in getattr(n, "xs", []) or []:
            walk(x)
        if hasattr(n, "x"):
            walk(n.x)
    walk(node)
    order = ["not", "and", "substr", "casei", "dot", "cls", "rep", "alt"]
    for k in order:
        if k in kinds:
            return k
    return "lit"
