"""Independent reference for regular expressions over UTF-8 bytes: AST -> NFA -> DFA (+ complement / intersection / substring),
printers to Rust-regex text and to Lark terminal expressions. Written from the documented semantics, not from llguidance."""
import random

MAXCP = 0x10FFFF


# ------------------------------------------------------------------ AST
class N:
    def __init__(self, kind, **kw):
        self.kind = kind
        self.__dict__.update(kw)

    def __repr__(self):
        return "N(%s,%s)" % (self.kind, {k: v for k, v in self.__dict__.items() if k != "kind"})


def Lit(s):
    return N("lit", s=s)


def Cls(ranges, neg=False):
    return N("cls", ranges=[tuple(r) for r in ranges], neg=neg)


def Dot(dotall=False):
    return N("dot", dotall=dotall)


def Cat(xs):
    return N("cat", xs=list(xs))


def Alt(xs):
    return N("alt", xs=list(xs))


def Rep(x, m, n):
    return N("rep", x=x, m=m, n=n)


def And(xs):
    return N("and", xs=list(xs))


def Not(x):
    return N("not", x=x)


def CaseI(s):
    return N("casei", s=s)


def Substr(chunks, mode="chunks", src=None):
    return N("substr", chunks=list(chunks), mode=mode, src=src)


# ------------------------------------------------------------------ UTF-8 range splitting
def _enc(cp):
    return list(chr(cp).encode("utf-8"))


def utf8_sequences(lo, hi):
    """list of sequences [(blo,bhi),...] whose concatenation language = UTF-8 encodings of scalar values in [lo,hi]"""
    out = []

    def split(lo, hi):
        if lo > hi:
            return
        # surrogates are not scalar values
        if lo <= 0xDFFF and hi >= 0xD800:
            split(lo, 0xD7FF)
            split(0xE000, hi)
            return
        for mx in (0x7F, 0x7FF, 0xFFFF):
            if lo <= mx < hi:
                split(lo, mx)
                split(mx + 1, hi)
                return
        if hi <= 0x7F:
            out.append([(lo, hi)])
            return
        n = len(_enc(lo))
        for i in range(1, n):
            m = (1 << (6 * i)) - 1
            if (lo & ~m) != (hi & ~m):
                if (lo & m) != 0:
                    split(lo, lo | m)
                    split((lo | m) + 1, hi)
                    return
                if (hi & m) != m:
                    split(lo, (hi & ~m) - 1)
                    split(hi & ~m, hi)
                    return
        a, b = _enc(lo), _enc(hi)
        out.append([(x, y) for x, y in zip(a, b)])

    split(lo, hi)
    return out


def norm_ranges(ranges):
    rs = sorted((max(0, a), min(MAXCP, b)) for a, b in ranges if a <= b)
    out = []
    for a, b in rs:
        if out and a <= out[-1][1] + 1:
            out[-1] = (out[-1][0], max(out[-1][1], b))
        else:
            out.append((a, b))
    return out


def neg_ranges(ranges):
    rs = norm_ranges(ranges)
    out = []
    cur = 0
    for a, b in rs:
        if a > cur:
            out.append((cur, a - 1))
        cur = b + 1
    if cur <= MAXCP:
        out.append((cur, MAXCP))
    return out


# ------------------------------------------------------------------ NFA / DFA
class NFA:
    def __init__(self):
        self.eps = []     # state -> list of states
        self.tr = []      # state -> list of (lo, hi, target)

    def new(self):
        self.eps.append([])
        self.tr.append([])
        return len(self.eps) - 1


class DFA:
    """complete DFA over bytes: tr[q] = list of 256 targets; state 0.. ; acc = set"""

    def __init__(self, tr, acc, init=0):
        self.tr, self.acc, self.init = tr, set(acc), init

    @property
    def n(self):
        return len(self.tr)

    def run(self, bs, q=None):
        q = self.init if q is None else q
        for b in bs:
            q = self.tr[q][b]
        return q

    def accepts(self, bs):
        return self.run(bs) in self.acc

    def coreach(self):
        rev = [set() for _ in range(self.n)]
        for q in range(self.n):
            for t in set(self.tr[q]):
                rev[t].add(q)
        good = set(self.acc)
        st = list(good)
        while st:
            t = st.pop()
            for q in rev[t]:
                if q not in good:
                    good.add(q)
                    st.append(q)
        return good

    def complement(self):
        return DFA(self.tr, set(range(self.n)) - self.acc, self.init)

    def minimize(self):
        # Moore partition refinement (small automata)
        part = [1 if q in self.acc else 0 for q in range(self.n)]
        while True:
            sig = {}
            newp = []
            for q in range(self.n):
                key = (part[q], tuple(part[t] for t in self._row_classes(q)))
                if key not in sig:
                    sig[key] = len(sig)
                newp.append(sig[key])
            if len(sig) == len(set(part)):
                part = newp
                break
            part = newp
        k = len(set(part))
        tr = [None] * k
        acc = set()
        for q in range(self.n):
            p = part[q]
            if tr[p] is None:
                tr[p] = [part[t] for t in self.tr[q]]
            if q in self.acc:
                acc.add(p)
        return DFA(tr, acc, part[self.init])

    def _row_classes(self, q):
        return self.tr[q]

    def to_aut_json(self):
        """same JSON shape as the exporter's automata, state 0 = dead (non-coreachable states are merged into it)"""
        good = self.coreach()
        ids = {}
        order = []
        for q in range(self.n):
            if q in good:
                ids[q] = len(order) + 1
                order.append(q)
        states = [{"t": [], "acc": []}]
        for q in order:
            row = []
            b = 0
            while b < 256:
                t = ids.get(self.tr[q][b], 0)
                e = b
                while e + 1 < 256 and ids.get(self.tr[q][e + 1], 0) == t:
                    e += 1
                if t != 0:
                    row.append([b, e, t])
                b = e + 1
            states.append({"t": row, "acc": [0] if q in self.acc else []})
        return {"n": len(states), "init": ids.get(self.init, 0), "states": states, "lexemes": [0]}


def product(a, b, both):
    ids = {(a.init, b.init): 0}
    order = [(a.init, b.init)]
    tr = []
    i = 0
    while i < len(order):
        p, q = order[i]
        row = []
        for byte in range(256):
            k = (a.tr[p][byte], b.tr[q][byte])
            if k not in ids:
                ids[k] = len(order)
                order.append(k)
            row.append(ids[k])
        tr.append(row)
        i += 1
    acc = set(i for i, (p, q) in enumerate(order) if ((p in a.acc) and (q in b.acc) if both else (p in a.acc) or (q in b.acc)))
    return DFA(tr, acc, 0)


def determinize(nfa, start, finals):
    def closure(S):
        st = list(S)
        S = set(S)
        while st:
            q = st.pop()
            for t in nfa.eps[q]:
                if t not in S:
                    S.add(t)
                    st.append(t)
        return frozenset(S)

    init = closure({start})
    ids = {init: 0}
    order = [init]
    tr = []
    i = 0
    while i < len(order):
        S = order[i]
        # collect cuts
        cuts = {0, 256}
        for q in S:
            for lo, hi, _ in nfa.tr[q]:
                cuts.add(lo)
                cuts.add(hi + 1)
        cs = sorted(cuts)
        row = [0] * 256
        for j in range(len(cs) - 1):
            lo, hi = cs[j], cs[j + 1] - 1
            T = set()
            for q in S:
                for a, b, t in nfa.tr[q]:
                    if a <= lo and hi <= b:
                        T.add(t)
            T = closure(T)
            if T not in ids:
                ids[T] = len(order)
                order.append(T)
            for byte in range(lo, hi + 1):
                row[byte] = ids[T]
        tr.append(row)
        i += 1
        if len(order) > 20000:
            raise ValueError("reference DFA too large")
    acc = set(i for i, S in enumerate(order) if S & finals)
    return DFA(tr, acc, 0)


def _embed(nfa, dfa):
    """embed a DFA as an NFA fragment: returns (start, end)"""
    base = [nfa.new() for _ in range(dfa.n)]
    end = nfa.new()
    for q in range(dfa.n):
        b = 0
        while b < 256:
            t = dfa.tr[q][b]
            e = b
            while e + 1 < 256 and dfa.tr[q][e + 1] == t:
                e += 1
            nfa.tr[base[q]].append((b, e, base[t]))
            b = e + 1
        if q in dfa.acc:
            nfa.eps[base[q]].append(end)
    return base[dfa.init], end


def _frag(nfa, node):
    """Thompson fragment: returns (start, end)"""
    k = node.kind
    if k == "lit":
        s = nfa.new()
        cur = s
        for b in node.s.encode("utf-8"):
            nx = nfa.new()
            nfa.tr[cur].append((b, b, nx))
            cur = nx
        return s, cur
    if k == "casei":
        s = nfa.new()
        cur = s
        for ch in node.s:
            nx = nfa.new()
            for c in {ch.lower(), ch.upper()}:
                bs = c.encode("utf-8")
                assert len(bs) == 1
                nfa.tr[cur].append((bs[0], bs[0], nx))
            cur = nx
        return s, cur
    if k in ("cls", "dot"):
        if k == "dot":
            ranges = [(0, MAXCP)] if node.dotall else neg_ranges([(10, 10)])
        else:
            ranges = neg_ranges(node.ranges) if node.neg else norm_ranges(node.ranges)
        s, e = nfa.new(), nfa.new()
        for lo, hi in ranges:
            for seq in utf8_sequences(lo, hi):
                cur = s
                for i, (a, b) in enumerate(seq):
                    nx = e if i == len(seq) - 1 else nfa.new()
                    nfa.tr[cur].append((a, b, nx))
                    cur = nx
        return s, e
    if k == "cat":
        s = nfa.new()
        cur = s
        for x in node.xs:
            a, b = _frag(nfa, x)
            nfa.eps[cur].append(a)
            cur = b
        return s, cur
    if k == "alt":
        s, e = nfa.new(), nfa.new()
        for x in node.xs:
            a, b = _frag(nfa, x)
            nfa.eps[s].append(a)
            nfa.eps[b].append(e)
        return s, e
    if k == "rep":
        s = nfa.new()
        cur = s
        for _ in range(node.m):
            a, b = _frag(nfa, node.x)
            nfa.eps[cur].append(a)
            cur = b
        if node.n is None:
            a, b = _frag(nfa, node.x)
            e = nfa.new()
            nfa.eps[cur].append(a)
            nfa.eps[cur].append(e)
            nfa.eps[b].append(a)
            nfa.eps[b].append(e)
            return s, e
        e = nfa.new()
        nfa.eps[cur].append(e)
        for _ in range(node.n - node.m):
            a, b = _frag(nfa, node.x)
            nfa.eps[cur].append(a)
            nfa.eps[b].append(e)
            cur = b
        return s, e
    if k == "and":
        d = compile_dfa(node.xs[0])
        for x in node.xs[1:]:
            d = product(d, compile_dfa(x), True).minimize()
        return _embed(nfa, d)
    if k == "not":
        d = compile_dfa(node.x).complement()
        return _embed(nfa, d)
    if k == "substr":
        # lst[n:m].join("") for n <= m
        pts = [nfa.new() for _ in range(len(node.chunks) + 1)]
        s, e = nfa.new(), nfa.new()
        for i, ch in enumerate(node.chunks):
            cur = pts[i]
            bs = ch.encode("utf-8")
            for j, b in enumerate(bs):
                nx = pts[i + 1] if j == len(bs) - 1 else nfa.new()
                nfa.tr[cur].append((b, b, nx))
                cur = nx
        for p in pts:
            nfa.eps[s].append(p)
            nfa.eps[p].append(e)
        return s, e
    raise ValueError(k)


def compile_dfa(node):
    nfa = NFA()
    s, e = _frag(nfa, node)
    return determinize(nfa, s, {e}).minimize()


# ------------------------------------------------------------------ printers
_SAFE = set("abcdefghijklmnopqrstuvwxyzABCDEFGHIJKLMNOPQRSTUVWXYZ0123456789 _,:;=!@#%éÉ€ß😀")


def _esc_char(c, in_class=False):
    if c in _SAFE:
        return c
    if c == "\n":
        return "\\n"
    return "\\x{%X}" % ord(c)


def to_rx(node, slash_escape=False):
    """Rust regex syntax text (only for nodes without and/not/substr)"""
    k = node.kind
    if k == "lit":
        return "".join(_esc_char(c) for c in node.s)
    if k == "casei":
        return "(?i:%s)" % "".join(c if c.isalnum() or c == " " else "\\" + c for c in node.s)
    if k == "dot":
        return "(?s:.)" if node.dotall else "."
    if k == "cls":
        body = ""
        for a, b in node.ranges:
            body += _esc_char(chr(a), True) if a == b else "%s-%s" % (_esc_char(chr(a), True), _esc_char(chr(b), True))
        return "[%s%s]" % ("^" if node.neg else "", body)
    if k == "cat":
        return "".join(_grp(x) if x.kind == "alt" else to_rx(x) for x in node.xs)
    if k == "alt":
        return "|".join(to_rx(x) for x in node.xs)
    if k == "rep":
        inner = to_rx(node.x)
        if node.x.kind in ("cat", "alt", "rep") or (node.x.kind == "lit" and len(node.x.s) != 1):
            inner = "(%s)" % inner
        if (node.m, node.n) == (0, 1):
            return inner + "?"
        if (node.m, node.n) == (0, None):
            return inner + "*"
        if (node.m, node.n) == (1, None):
            return inner + "+"
        if node.n is None:
            return inner + "{%d,}" % node.m
        if node.m == node.n:
            return inner + "{%d}" % node.m
        return inner + "{%d,%d}" % (node.m, node.n)
    raise ValueError("not a plain regex: " + k)


def _grp(x):
    return "(%s)" % to_rx(x)


def is_plain(node):
    k = node.kind
    if k in ("and", "not", "substr"):
        return False
    if k == "cls" and getattr(node, "lit_range", False):
        return False
    if k in ("cat", "alt"):
        return all(is_plain(x) for x in node.xs)
    if k == "rep":
        return is_plain(node.x)
    return True


def _lark_str(s):
    out = '"'
    for c in s:
        if c == '"' or c == "\\":
            out += "\\" + c
        elif c == "\n":
            out += "\\n"
        else:
            out += c
    return out + '"'


def to_lark(node, top=True):
    """Lark terminal expression. Plain sub-trees become /regex/ literals or "strings"; & ~ substring and (randomly chosen
    by the generator through kind 'lark_*') Lark-level operators are printed with Lark syntax."""
    k = node.kind
    lark_level = getattr(node, "lark", False)
    if k == "and":
        return "(" + " & ".join(to_lark(x, False) for x in node.xs) + ")"
    if k == "not":
        return "~" + _lark_atom(node.x)
    if k == "substr":
        import json
        key = {"chunks": "substring_chunks", "words": "substring_words", "chars": "substring_chars"}[node.mode]
        val = node.chunks if node.mode == "chunks" else node.src
        return "%%regex { %s: %s }" % (json.dumps(key), json.dumps(val, ensure_ascii=False))
    if k == "cls" and getattr(node, "lit_range", False):
        # Lark literal range "a".."z": both end points are single characters, every scalar value in between matches
        (lo, hi), = node.ranges
        return "(" + _lark_str(chr(lo)) + ".." + _lark_str(chr(hi)) + ")"
    if k == "casei" and getattr(node, "flag_string", False):
        # Lark string literal with the i flag: the characters are literal, whatever they are
        return _lark_str(node.s) + "i"
    if is_plain(node) and not lark_level:
        if k == "lit" and all(c in _SAFE for c in node.s):
            return _lark_str(node.s)
        return "/" + to_rx(node).replace("/", "\\/") + "/"
    if k == "cat":
        return "(" + " ".join(to_lark(x, False) for x in node.xs) + ")"
    if k == "alt":
        return "(" + " | ".join(to_lark(x, False) for x in node.xs) + ")"
    if k == "rep":
        inner = _lark_atom(node.x)
        if (node.m, node.n) == (0, 1):
            return inner + "?"
        if (node.m, node.n) == (0, None):
            return inner + "*"
        if (node.m, node.n) == (1, None):
            return inner + "+"
        if node.n is None:
            return inner + "{%d,}" % node.m
        if node.m == node.n:
            return inner + "{%d}" % node.m
        return inner + "{%d,%d}" % (node.m, node.n)
    return "/" + to_rx(node).replace("/", "\\/") + "/"


def _lark_atom(x):
    s = to_lark(x, False)
    postfix = x.kind in ("rep", "not") and not (is_plain(x) and not getattr(x, "lark", False))
    if not postfix and (s.startswith("(") or s.startswith('"') or s.startswith("/") or s.startswith("%")):
        return s
    return "(" + s + ")"


# ------------------------------------------------------------------ python `re` cross-check of the reference itself
def to_pyre(node):
    """python re pattern (str) for plain nodes"""
    k = node.kind
    import re
    if k == "lit":
        return re.escape(node.s)
    if k == "casei":
        return "(?i:%s)" % re.escape(node.s)
    if k == "dot":
        return "(?s:.)" if node.dotall else "."
    if k == "cls":
        body = ""
        for a, b in node.ranges:
            body += re.escape(chr(a)) if a == b else "%s-%s" % (re.escape(chr(a)), re.escape(chr(b)))
        return "[%s%s]" % ("^" if node.neg else "", body)
    if k == "cat":
        return "".join("(?:%s)" % to_pyre(x) for x in node.xs)
    if k == "alt":
        return "|".join("(?:%s)" % to_pyre(x) for x in node.xs)
    if k == "rep":
        inner = "(?:%s)" % to_pyre(node.x)
        if node.n is None:
            return inner + "{%d,}" % node.m
        return inner + "{%d,%d}" % (node.m, node.n)
    raise ValueError(k)


def alphabet_of(node, acc=None):
    acc = set() if acc is None else acc
    k = node.kind
    if k == "lit":
        acc.update(node.s)
    elif k == "casei":
        acc.update(node.s.lower() + node.s.upper())
    elif k == "cls":
        for a, b in node.ranges:
            acc.add(chr(a))
            acc.add(chr(b))
            if b < MAXCP and not (0xD7FF <= b <= 0xDFFF):
                acc.add(chr(b + 1))
    elif k in ("cat", "alt", "and"):
        for x in node.xs:
            alphabet_of(x, acc)
    elif k in ("rep",):
        alphabet_of(node.x, acc)
    elif k == "not":
        alphabet_of(node.x, acc)
    elif k == "substr":
        for c in node.chunks:
            acc.update(c)
    return acc


def self_check(node, dfa, rng, n=300):
    """compare the reference DFA with python's re on random unicode strings (plain nodes only). Returns list of mismatches."""
    import re
    if not is_plain(node):
        return []
    pat = re.compile(to_pyre(node))
    alpha = sorted(alphabet_of(node) | {"a", "z", "\n", "é", "€", "Z"})
    bad = []
    for _ in range(n):
        ln = rng.randint(0, 6)
        s = "".join(rng.choice(alpha) for _ in range(ln))
        want = pat.fullmatch(s) is not None
        got = dfa.accepts(s.encode("utf-8"))
        if want != got:
            bad.append((s, want, got))
    return bad


# ------------------------------------------------------------------ generator
LETTERS = "abcdefghij"
CI_LETTERS = "abcdefghijlmnopqrtuvwxyz"   # no k / s: their Unicode simple case folds include non-ASCII characters


def gen_plain(rng, depth=0, allow_unicode=True):
    r = rng.random()
    if depth >= 3 or r < 0.28:
        c = rng.random()
        if c < 0.45:
            pool = LETTERS + ("é€ß" if allow_unicode else "")
            return Lit("".join(rng.choice(pool) for _ in range(rng.randint(1, 3))))
        if c < 0.7:
            a = rng.randint(ord("a"), ord("h"))
            rs = [(a, a + rng.randint(0, 3))]
            if rng.random() < 0.3:
                rs.append((ord("0"), ord("0") + rng.randint(0, 9)))
            if allow_unicode and rng.random() < 0.25:
                rs.append((0xE0, 0xE0 + rng.randint(0, 20)))     # à..
            if allow_unicode and rng.random() < 0.1:
                rs.append((0x20AC, 0x20AC))
            return Cls(rs, neg=rng.random() < 0.3)
        if c < 0.8:
            return Dot(dotall=rng.random() < 0.4)
        if c < 0.9:
            return CaseI("".join(rng.choice(CI_LETTERS) for _ in range(rng.randint(1, 3))))
        return Lit(rng.choice(LETTERS))
    if r < 0.5:
        return Cat([gen_plain(rng, depth + 1, allow_unicode) for _ in range(rng.randint(2, 3))])
    if r < 0.7:
        return Alt([gen_plain(rng, depth + 1, allow_unicode) for _ in range(rng.randint(2, 3))])
    x = gen_plain(rng, depth + 1, allow_unicode)
    c = rng.random()
    if c < 0.2:
        return Rep(x, 0, 1)
    if c < 0.4:
        return Rep(x, 0, None)
    if c < 0.55:
        return Rep(x, 1, None)
    if c < 0.7:
        m = rng.randint(0, 3)
        return Rep(x, m, max(1, m + rng.randint(0, 3)))
    if c < 0.85:
        return Rep(x, rng.randint(1, 3), None)
    m = rng.randint(1, 3)
    return Rep(x, m, m)


META = ".|+*?()[]{}^$"


def flag_strings(node, rng):
    """turn some case-insensitive leaves into Lark flagged string literals ("v1.0"i), half of them containing regex metacharacters"""
    if node.kind == "casei" and rng.random() < 0.7:
        node.flag_string = True
        if rng.random() < 0.6:
            pos = rng.randint(0, len(node.s))
            node.s = node.s[:pos] + rng.choice(META) + node.s[pos:]
    for x in getattr(node, "xs", []) or []:
        flag_strings(x, rng)
    if hasattr(node, "x"):
        flag_strings(node.x, rng)
    return node


def mark_lark(node, rng):
    """randomly decide which cat/alt/rep nodes are written with Lark-level syntax"""
    if node.kind in ("cat", "alt", "rep") and rng.random() < 0.6:
        node.lark = True
        for x in (node.xs if node.kind != "rep" else [node.x]):
            mark_lark(x, rng)
    return node


LIT_RANGES = [(0x61, 0x66), (0x30, 0x39), (0x21, 0x2F), (0x5B, 0x5E), (0xE0, 0xFF), (0x430, 0x44F), (0x3B1, 0x3C9), (0x4E00, 0x4E2D), (0xA1, 0xBF), (0xFF, 0x101),
              (0x7FE, 0x801), (0xFFFD, 0x10001), (0x1F600, 0x1F64F), (0x41, 0x41), (0xD7FE, 0xD7FF), (0xE000, 0xE001)]


def gen_lit_ranges(rng):
    """a terminal built from Lark literal ranges "x".."y" (ASCII, Latin-1, Cyrillic, Greek, CJK, astral; end points at the UTF-8 length
    boundaries), combined with Lark-level operators"""
    def rg():
        if rng.random() < 0.7:
            lo, hi = rng.choice(LIT_RANGES)
        else:
            lo = rng.choice([0x20, 0x5D, 0xBF, 0x3FF, 0x7FF, 0x800, 0xFFF, 0x2000, 0xFFEE, 0x10000, 0x10FFF0])
            hi = min(lo + rng.randint(0, 40), 0x10FFFF)
            if lo <= 0xDFFF and hi >= 0xD800:
                lo, hi = 0x430, 0x44F
        n = Cls([(lo, hi)])
        n.lit_range = True
        return n
    form = rng.randint(0, 3)
    if form == 0:
        node = Rep(rg(), 1, None)
    elif form == 1:
        node = Cat([rg(), Rep(Alt([rg(), Lit(rng.choice(["-", "x", "é"]))]), 0, rng.choice([None, 2]))])
    elif form == 2:
        node = Alt([Cat([rg(), rg()]), Lit("q")])
    else:
        node = Cat([Lit(rng.choice(["<", "a"])), Rep(rg(), rng.randint(0, 2), rng.randint(2, 3)), Lit(">")])

    def mark(n):
        if n.kind in ("cat", "alt", "rep"):
            n.lark = True
            for x in (n.xs if n.kind != "rep" else [n.x]):
                mark(x)
    mark(node)
    return node


def gen_case(rng, idx):
    """returns dict(kind='regex'|'lark', text=..., node=...)"""
    if rng.random() < 0.08:
        node = gen_lit_ranges(rng)
        return dict(kind="lark", text="start: T\nT: %s\n" % to_lark(node), node=node)
    r = rng.random()
    if r < 0.5:
        node = gen_plain(rng)
        return dict(kind="regex", text=to_rx(node), node=node)
    if r < 0.68:
        node = flag_strings(mark_lark(gen_plain(rng), rng), rng)
        return dict(kind="lark", text="start: T\nT: %s\n" % to_lark(node), node=node)
    if r < 0.86:
        pos = gen_plain(rng, 1, allow_unicode=rng.random() < 0.5)
        inner = gen_plain(rng, 2, allow_unicode=False)
        form = rng.random()
        if form < 0.5:
            neg = Not(Cat([Rep(Dot(True), 0, None), inner, Rep(Dot(True), 0, None)]))
        else:
            neg = Not(inner)
        node = And([pos, neg]) if rng.random() < 0.7 else And([pos, gen_plain(rng, 1, allow_unicode=False)])
        return dict(kind="lark", text="start: T\nT: %s\n" % to_lark(node), node=node)
    mode = rng.choice(["chunks", "words", "chars", "chars"])
    if mode == "chunks":
        pool = ["a", "b", "ab", "ba", "c", "é", " ", "abc"]
        chunks = [rng.choice(pool) for _ in range(rng.randint(2, 7))]
        node = Substr(chunks, "chunks")
    elif mode == "chars":
        # repeated letters matter: the suffix automaton has to split states exactly when a context repeats
        alpha = rng.choice(["ab", "abc", "abé", "ab "])
        src = "".join(rng.choice(alpha) for _ in range(rng.randint(2, 9)))
        node = Substr(list(src), "chars", src)
    else:
        words = ["a", "b", "ab", "the", "cat", "on"]
        seps = [" ", " ", ". ", ", "]
        k = rng.randint(2, 6)
        src = ""
        for i in range(k):
            if i:
                src += rng.choice(seps)
            src += rng.choice(words)
        node = Substr(_split_words(src), "words", src)
    return dict(kind="lark", text="start: T\nT: %s\n" % to_lark(node), node=node)


def _split_words(s):
    """documented: "foo bar. baz" -> ["foo", " ", "bar", ".", " ", "baz"] (maximal runs of word characters, every other char alone)"""
    out = []
    cur = ""
    for c in s:
        if c.isalnum() or c == "_":
            cur += c
        else:
            if cur:
                out.append(cur)
                cur = ""
            out.append(c)
    if cur:
        out.append(cur)
    return out
