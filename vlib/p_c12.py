"""C12 — rolling back tokens restores the earlier state (TokenParser bookkeeping half). E1c: TokenParser::{consume_token, apply_token,
check_stop, rollback, ...} as whole-function slices of the current source over a stub Earley parser (a byte stack)."""
from . import parser_props as pp
from .common import Timer, tier
from .e1check import E1Outcome, e1_coverage, finish, run_parser_groups

ASSUMPTIONS = [
    "bounded model checking (Kani 0.68/CBMC 6.11), unwinding assertions on",
    "P12: the functions of TokenParser listed in vlib/parser_props.py TP_FNS (stop_reason, stopped, is_accepting, clear_caches, stop, check_initialized, validate_token, reset, rollback, validate_tokens_raw, compute_mask_inner, apply_token, consume_token, check_stop, ...) are cut verbatim from /repo's current tokenparser.rs on every run and re-hosted in a mock TokenParser with the same field names; ensure!/format!/infoln!/warn!/anyhow are shadowed (no message text is built)",
    "stub contract (part of the claim): the Earley parser is a byte stack; apply_token(bytes) appends exactly the bytes or fails without effect; rollback(n) drops exactly n bytes or fails without effect when n exceeds the stack; is_accepting/can_advance/accepts-next-token are arbitrary functions of the stack depth; scan_eos() answers false (EOS ending a gen() lexeme is outside); no backtracking (Matcher refuses it), empty grammar prefix; vocabulary of 4 tokens with symbolic lengths 0..2 bytes, token 3 is the end-of-sequence token and may carry bytes (special-token spelling); token_len(t) == decode_raw([t]).len() (decided for the real trie by K16.6)",
    "decided: from ANY consistent state after 0-1 tokens (symbolic contents), commit one token (possibly end-of-sequence — accepted as end of sequence in an accepting state, or given to the parser as bytes when the grammar names it — with or without check_stop() after the last one), then rollback of that many: token list, byte list, parser byte history, token budget, stop status and the is_accepting / ff_tokens caches equal those before; rollback beyond the history or in a failed state is refused without effect; a committed token appends exactly its bytes to both histories",
    "P12f (forced-bytes memo): ParserState::{needs_force_bytes, force_bytes, with_items_limit, rollback, has_pending_lexeme_bytes, lexer_state, num_rows, assert_definitive*, check_lexer_bytes_invariant} verbatim in a mock parser state; forced_byte() answers as a symbolic function of the identity of the definitive byte history (ghost version per stack entry; forced chains one byte long), try_push_byte_definitive pushes the byte. Decided for the histories commit/force/rollback(1|2)/commit/force (3 shapes): whenever force_bytes() returns, nothing is forced any more — the 'already done at this length' memo never skips a state that a rollback made new",
    "representation invariant checked after every rollback: the end-of-sequence bookkeeping (bare_eos_idx) only names tokens that are still in the token list",
    "outside the claim: ParserState::rollback's own truncation of lexer stack / rows / row infos against the Earley tables (its mask-cache invalidation is decided under C11), captures, equality of all later behaviour (needs the interpreter)",
]


def run():
    tm = Timer()
    out = E1Outcome()
    specs = pp.specs("tpproto", "c12", "proto_fail") + [s for s in pp.specs("tpproto", "c01")] + pp.specs("pforce", "c12", "c12_fail")
    if tier() == "quick":
        specs = [s for s in specs if "_k2" not in s["name"]]
    info = run_parser_groups("C12", "c12", ["tpproto", "pforce"], specs, out, jobs=6, harness_timeout_s=1200, mem_gb=40)
    cov = e1_coverage(out, [dict(harness=s["name"]) for s in specs[:8]],
                      ["tokenparser.rs TokenParser::{" + ", ".join(pp.TP_FNS) + "} (whole-function slices)",
                       "earley/parser.rs ParserState::{" + ", ".join(pp.PFORCE_FNS) + "} (whole-function slices)"],
                      dict(prior_tokens="0..1", committed="1 (inductive step from an arbitrary consistent state)", token_len="0..2", vocab=4), dict(tier=tier(), stubs=["earley::Parser (byte stack)", "TokTrie (4-token table)", "ensure!/format!/infoln!/warn!/anyhow (no message text)"], **info))
    return finish("C12", out, tm, "model_checking", cov, ASSUMPTIONS)
