"""C18 — stop, end-of-sequence and accepting status are mutually consistent (TokenParser protocol half + valid_utf8_len). E1c: the
protocol functions of TokenParser as whole-function slices over a stub Earley parser; E1: StopController's valid_utf8_len."""
from . import parser_props as pp
from .common import Timer, tier
from .e1check import E1Outcome, e1_coverage, finish, run_parser_groups

ASSUMPTIONS = [
    "bounded model checking (Kani 0.68/CBMC 6.11), unwinding assertions on",
    "P18: TokenParser::{consume_token, apply_token, check_stop, compute_mask_inner, validate_token, validate_tokens_raw, rollback, stop, check_initialized, is_accepting, ...} cut verbatim from /repo's current tokenparser.rs and re-hosted in a mock TokenParser (same field names; real StopReason, ParserError, SimpleVob); stub contract as for C12 (parser = byte stack whose accepting / can_advance / error / accepts-token answers are arbitrary functions of the depth)",
    "decided: (1) once stopped for ANY reason, consume_token and compute_mask fail, validate_token answers false, validate_tokens_raw answers 0, nothing reaches the parser and no list changes; (2) check_stop() stops exactly when the state is accepting and (cannot advance or end-of-sequence was committed), with EndOfSentence / NoExtension accordingly, and otherwise changes nothing; (3) end-of-sequence in a non-accepting state is either given to the parser as bytes or fails the engine — never dropped; (4) the mask has the end-of-sequence bit whenever the state is accepting, every other bit is the walk's, an empty mask is never returned (NoExtensionBias stop instead), a parser error fails the engine; (5) a token id outside the vocabulary fails the engine for good (InternalError; consume, mask, rollback all refuse afterwards); (6) the token budget refuses the call that would exceed it with MaxTokensTotal before anything is applied",
    "valid_utf8_len (stop controller): never ends inside a multi-byte character whose remaining bytes are absent; withholds exactly an incomplete tail; returns complete text whole (buffers of <= 6 bytes, arbitrary content)",
    "outside the claim: that the text so far IS complete when the parser says accepting (Earley run time); Matcher's panic capture (catch_unwind cannot be modelled); Constraint's step protocol; the stop controller's regex search (derivre automaton behind a mutex)",
]


def run():
    tm = Timer()
    out = E1Outcome()
    specs = pp.specs("tpproto", "c18", "proto_fail") + pp.specs("stop", "c20")
    info = run_parser_groups("C18", "c18", ["tpproto", "stop"], specs, out, jobs=6, harness_timeout_s=1200, mem_gb=40)
    cov = e1_coverage(out, [dict(harness=s["name"]) for s in specs[:8]],
                      ["tokenparser.rs TokenParser::{" + ", ".join(pp.TP_FNS) + "} (whole-function slices)", "stop_controller.rs valid_utf8_len"],
                      dict(prior_tokens=1, token_len="0..2", vocab=4, utf8_buffer="<=6 bytes"), dict(tier=tier(), stubs=["earley::Parser (byte stack)", "TokTrie (4-token table)", "ensure!/format!/infoln!/warn!/anyhow (no message text)"], **info))
    return finish("C18", out, tm, "model_checking", cov, ASSUMPTIONS)
