"""C18 — stop, end-of-sequence and accepting status are mutually consistent (TokenParser protocol half + valid_utf8_len). E1c: the
protocol functions of TokenParser as whole-function slices over a stub Earley parser; E1: StopController's valid_utf8_len."""
from . import parser_props as pp
from .common import Timer, tier
from .e1check import E1Outcome, e1_coverage, finish, run_parser_groups

ASSUMPTIONS = [
    "bounded model checking (Kani 0.68/CBMC 6.11), unwinding assertions on",
    "P18: TokenParser::{consume_token, apply_token, check_stop, compute_mask_inner, validate_token, validate_tokens_raw, rollback, stop, check_initialized, is_accepting, ...} cut verbatim from /repo's current tokenparser.rs and re-hosted in a mock TokenParser (same field names; real StopReason, ParserError, SimpleVob); stub contract as for C12 (parser = byte stack whose accepting / can_advance / error / accepts-token answers are arbitrary functions of the depth)",
    "decided: (1) once stopped for ANY reason, consume_token and compute_mask fail, validate_token answers false, validate_tokens_raw answers 0, nothing reaches the parser and no list changes; (2) check_stop() stops exactly when the state is accepting and (cannot advance or end-of-sequence was committed), with EndOfSentence / NoExtension accordingly, and otherwise changes nothing; (3) end-of-sequence in a non-accepting state is either given to the parser as bytes or fails the engine — never dropped; (4) the mask has the end-of-sequence bit whenever the state is accepting, every other bit is the walk's, an empty mask is never returned (NoExtensionBias stop instead), a parser error fails the engine; (5) a token id outside the vocabulary fails the engine for good (InternalError; consume, mask, rollback all refuse afterwards); (6) the token budget refuses the call that would exceed it with MaxTokensTotal before anything is applied",
    "valid_utf8_len (stop controller): never ends inside a multi-byte character whose remaining bytes are absent; withholds exactly an incomplete tail; returns complete text whole (buffers of <= 6 bytes, arbitrary content)",
    "P18m: Matcher::{with_inner, consume_tokens, consume_token, rollback, reset, compute_mask, compute_mask_or_eos, is_accepting, is_stopped, stop_reason, compute_ff_tokens, consume_ff_tokens, compute_ff_bytes, try_consume_tokens, validate_tokens, is_error} cut verbatim from matcher.rs onto local copies of the Matcher type definitions with a stub TokenParser (call log, symbolic answers); panic_utils::catch_unwind is a plain call. Decided: a failing call leaves the Matcher permanently failed (is_error, is_stopped, InternalError), every later call fails and never reaches the engine, fast-forward queries answer nothing; consume_tokens commits in order with one stop check at the end and treats a backtrack request as an error; after a regular stop compute_mask_or_eos yields exactly the end-of-sequence set without asking the engine, compute_mask is an error, rollback revives the engine",
    "P18c: Constraint::{compute_mask, compute_mask_inner, commit_token, commit_token_inner, catch_unwind, res_commit_result, save_progress_and_result, save_temperature, step_result, has_pending_stop, validate_tokens_raw, force_tokens} cut verbatim from constraint.rs onto a local copy of the Constraint struct with a stub TokenParser; real StepResult / CommitResult. Decided: compute_mask gives a stop result exactly when the engine reports the stop (or NoExtensionBias), else the engine's mask, else an error; after a stop result another compute_mask is an error and commit_token repeats the stop, neither reaches the engine; commit_token needs the sampled token, commits it once, appends fast-forward tokens only when the caller can take them, reports exactly what was committed, and a stop detected then is the next step's result",
    "outside the claim: that the text so far IS complete when the parser says accepting (Earley run time); panic capture (catch_unwind cannot be modelled: Kani treats a panic as a failure); the stop controller's regex search (derivre automaton behind a mutex)",
]


def run():
    tm = Timer()
    out = E1Outcome()
    specs = pp.specs("tpproto", "c18", "proto_fail") + pp.specs("stop", "c20") + pp.specs("mproto", "c18", "c18_fail") + pp.specs("cproto", "c18", "c18_fail")
    info = run_parser_groups("C18", "c18", ["tpproto", "stop", "mproto", "cproto"], specs, out, jobs=8, harness_timeout_s=1200, mem_gb=40)
    cov = e1_coverage(out, [dict(harness=s["name"]) for s in specs[:8]],
                      ["tokenparser.rs TokenParser::{" + ", ".join(pp.TP_FNS) + "} (whole-function slices)", "stop_controller.rs valid_utf8_len"],
                      dict(prior_tokens=1, token_len="0..2", vocab=4, utf8_buffer="<=6 bytes"), dict(tier=tier(), stubs=["earley::Parser (byte stack)", "TokTrie (4-token table)", "ensure!/format!/infoln!/warn!/anyhow (no message text)"], **info))
    return finish("C18", out, tm, "model_checking", cov, ASSUMPTIONS)
