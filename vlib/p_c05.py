"""C05 — a Lark CFG admits exactly the grammar's language (compile level). E2: compiled rule table vs a reference CFG built from the
same AST, CYK encoding on a symbolic terminal word; nullability flags of the compiled table checked as a least fixed point (SAT);
every counterexample is replayed byte by byte on the real Matcher."""
import json
import random
import time

import z3

from . import e2, gram, larkgen
from .automaton import Aut, single_string
from .common import (EXIT_INCONCLUSIVE, EXIT_OK, EXIT_VIOLATION, Timer, log, match_known, save_replay, seed, settle, tier, write_evidence)

HAND = [
    # the same rule quantified twice (builder caches keyed by (element, n))
    dict(names=["start", "r1"], rules={"start": ("seq", [("rep", ("r", "r1"), 0, 2), ("t", "c"), ("rep", ("r", "r1"), 2, 2)]), "r1": ("alt", [("t", "a"), ("t", "b")])}),
    dict(names=["start", "r1"], rules={"start": ("seq", [("rep", ("r", "r1"), 2, 2), ("t", "c"), ("rep", ("r", "r1"), 0, 2)]), "r1": ("alt", [("t", "a"), ("t", "b")])}),
    dict(names=["start", "r1"], rules={"start": ("seq", [("rep", ("r", "r1"), 1, 3), ("t", "c"), ("rep", ("r", "r1"), 2, None), ("t", "d"), ("rep", ("r", "r1"), 2, 2)]), "r1": ("t", "a")}),
    dict(names=["start", "r1"], rules={"start": ("alt", [("seq", [("opt", ("r", "r1")), ("t", "c"), ("rep", ("r", "r1"), 1, 1)]), ("seq", [("star", ("r", "r1")), ("t", "d"), ("plus", ("r", "r1"))])]), "r1": ("t", "a")}),
    # empty productions, left / right / mutual recursion, ambiguity, grouping
    dict(names=["start", "r1"], rules={"start": ("alt", [("seq", [("r", "start"), ("t", "a")]), ("r", "r1")]), "r1": ("alt", [("empty",), ("t", "b")])}),
    dict(names=["start", "r1"], rules={"start": ("alt", [("seq", [("t", "a"), ("r", "start")]), ("r", "r1")]), "r1": ("seq", [("t", "b"), ("opt", ("t", "c"))])}),
    dict(names=["start", "r1", "r2"], rules={"start": ("r", "r1"), "r1": ("alt", [("seq", [("t", "a"), ("r", "r2")]), ("t", "c")]), "r2": ("alt", [("seq", [("t", "b"), ("r", "r1")]), ("empty",)])}),
    dict(names=["start"], rules={"start": ("alt", [("seq", [("r", "start"), ("r", "start")]), ("t", "a"), ("empty",)])}),
    dict(names=["start", "r1"], rules={"start": ("seq", [("star", ("r", "r1")), ("plus", ("t", "d")), ("rep", ("r", "r1"), 1, 2)]), "r1": ("alt", [("t", "a"), ("seq", [("t", "b"), ("t", "c")])])}),
    dict(names=["start", "r1"], rules={"start": ("seq", [("t", "a"), ("r", "r1"), ("t", "b")]), "r1": ("alt", [("seq", [("t", "a"), ("r", "r1"), ("t", "b")]), ("empty",)])}),
]


def gen_cases(tr, sd):
    rng = random.Random(5000 + sd)
    cases = []
    for h in HAND:
        text = "".join("%s: %s\n" % (nm, larkgen.to_lark(h["rules"][nm], True)) for nm in h["names"])
        cases.append(dict(text=text, rules=h["rules"], names=h["names"], origin="hand"))
    n = 300 if tr == "quick" else 2000
    for i in range(n):
        g = larkgen.gen_grammar(rng, attrs=False)
        g["origin"] = "seed%d" % sd
        cases.append(g)
    # parametric rules: the compiled table is expanded over the reachable (symbol, parameter) pairs with a Python evaluator written from
    # docs/parametric.md, the reference is expanded from the generator's own structured form (the Rust evaluator is decided by Kani)
    for i in range(40 if tr == "quick" else 400):
        g = larkgen.gen_parametric(rng)
        g.update(origin="parametric-seed%d" % sd, rules={}, names=[])
        cases.append(g)
    return cases


def nullable_through_expr(cg_raw, ga_raw):
    """role test for the known finding: the compiled table carries a conditional-nullable flag for a symbol S that is not one of S's own
    empty alternatives in the optimised grammar (so it was propagated by CGrammar::from_grammar), and S has a rule made of nonterminals
    only in which a reference transforms the parameter (the propagation ignores that transformation)"""
    def eps(g):
        out = {}
        for i, (l, r) in enumerate(g.rules):
            if not r:
                out.setdefault(l, set()).add((g.conds.get(i) or "true").replace(" ", ""))
        return out
    e_cg, e_ga = eps(cg_raw), eps(ga_raw)
    params = getattr(cg_raw, "params", {}) or {}
    for sym, conds in e_cg.items():
        if conds == e_ga.get(sym, set()):
            continue
        for i, (l, r) in enumerate(cg_raw.rules):
            if l != sym or not r or any(k != "N" for k, _v in r):
                continue
            ps = params.get(i) or []
            if any(pe not in (None, "_", "") for pe in ps):
                return sym
    return None


def nullable_queries(res):
    """F = symbols flagged nullable in the compiled table; rules from the optimised grammar. Returns (closed_ok, minimal_ok, detail)"""
    cg = gram.parse_grammar_text(res["cgrammar"], res.get("cgrammar_start"))
    F = set(l for l, r in cg.rules if len(r) == 0)
    ga = gram.parse_grammar_text(res["grammar_after"])
    nts = sorted(ga.nonterminals() | cg.nonterminals())
    v = {a: z3.Bool("n_" + a) for a in nts}

    def closed(assign):
        cs = []
        for l, r in ga.rules:
            if any(k == "T" for k, _ in r):
                continue
            body = [assign[x] for _, x in r]
            cs.append(z3.Implies(z3.And(*body) if body else z3.BoolVal(True), assign[l]))
        return cs

    fixed = {a: z3.BoolVal(a in F) for a in nts}
    s = z3.Solver()
    s.add(z3.Not(z3.And(*closed(fixed))) if closed(fixed) else z3.BoolVal(False))
    closed_ok = s.check() == z3.unsat
    s2 = z3.Solver()
    s2.add(*closed(v))
    s2.add(*[z3.Implies(v[a], fixed[a]) for a in nts])
    s2.add(z3.Or(*[z3.And(fixed[a], z3.Not(v[a])) for a in nts]) if nts else z3.BoolVal(False))
    minimal_ok = s2.check() == z3.unsat
    return closed_ok, minimal_ok, sorted(F)


def _work(args):
    idx, case, res, N = args
    out = dict(idx=idx, status="ok", queries=0, solver_s=0.0, cand=None, twin=None, sizes=None, note=None, nullable=None)
    if not res.get("ok"):
        out["status"] = "compile_error"
        out["note"] = str(res.get("error"))[:300]
        return out
    lit = {}
    for i, a in enumerate(res.get("automata") or []):
        if "error" in a or i == 0:
            continue
        s = single_string(Aut(a), i)
        if s is not None and len(s) == 1:
            lit[s.decode("latin-1")] = i
    used = set()

    def collect(e):
        if e[0] == "t":
            used.add(e[1])
        elif e[0] in ("seq", "alt"):
            for x in e[1]:
                collect(x)
        elif e[0] not in ("r", "empty"):
            collect(e[1])
    for nm in case["names"]:
        collect(case["rules"][nm])
    if not used <= set(lit):
        out["status"] = "skip"
        out["note"] = "terminal mapping failed: used %s, literal lexemes %s" % (sorted(used), sorted(lit))
        return out
    cg = gram.parse_grammar_text(res["cgrammar"], res.get("cgrammar_start"))
    cg_raw = cg
    if case.get("pref"):
        try:
            ref = larkgen.parametric_reference(case["pref"], lit)
            # compiled table: lines "A ⇦ ϵ %if cond" are conditional nullable flags and are read as conditional epsilon rules
            cg = gram.expand_parametric(cg)
        except (ValueError, KeyError) as ex:
            out["status"] = "skip"
            out["note"] = "parametric expansion failed: %r" % (ex,)
            return out
    else:
        ref = larkgen.reference_cfg(case, lit)
        t0 = time.time()
        c_ok, m_ok, F = nullable_queries(res)
        out["solver_s"] += time.time() - t0
        out["queries"] += 2
        out["nullable"] = (c_ok, m_ok)
    terms = cg.terminals() | ref.terminals()
    if len(cg.trimmed().binarized().nonterminals()) + len(ref.trimmed().binarized().nonterminals()) > 160:
        out["status"] = "skip_big"
        return out
    out["sizes"] = (len(cg.rules), len(ref.rules), len(terms))
    if not terms:
        return out
    w, wc = gram.sym_word(N, terms)
    e1 = gram.CykEnc(cg, w, "e")
    e2_ = gram.CykEnc(ref, w, "r")
    s = z3.Solver()
    s.set("timeout", 240000)
    s.add(*wc)
    s.add(*e1.cons)
    s.add(*e2_.cons)
    s.push()
    s.add(z3.Or(*[z3.Xor(e1.derives(j), e2_.derives(j)) for j in range(N + 1)]))
    t0 = time.time()
    r = s.check()
    out["solver_s"] += time.time() - t0
    out["queries"] += 1
    if r == z3.sat:
        m = s.model()
        word = [m.eval(x, model_completion=True).as_long() for x in w]
        inv = {v: k for k, v in lit.items()}
        for j in range(N + 1):
            if gram.recognizes(cg, word[:j]) != gram.recognizes(ref, word[:j]):
                out["cand"] = dict(word=word[:j], text="".join(inv.get(t, "?") for t in word[:j]), compiled_derives=gram.recognizes(cg, word[:j]))
                break
        if out["cand"] is None:
            out["status"] = "nonrepro"
    elif r != z3.unsat:
        out["status"] = "unknown"
    s.pop()
    if case.get("pref") and out["cand"] and out["cand"]["compiled_derives"] and res.get("grammar_after"):
        # which stage gained the word? the optimised grammar under the documented semantics, or the compiled table's nullable flags
        try:
            ga_raw = gram.parse_grammar_text(res["grammar_after"])
            ga = gram.expand_parametric(ga_raw)
            sym = nullable_through_expr(cg_raw, ga_raw)
            if sym and not gram.recognizes(ga, out["cand"]["word"]):
                out["cand"]["role"] = "cond-nullable-through-param-expr"
                out["cand"]["symbol"] = sym
                # the rest of the pipeline for this grammar: optimised grammar (exact semantics) against the reference
                e4 = gram.CykEnc(ga, w, "g")
                s.push()
                s.add(*e4.cons)
                s.add(z3.Or(*[z3.Xor(e4.derives(j), e2_.derives(j)) for j in range(N + 1)]))
                t0 = time.time()
                r2 = s.check()
                out["solver_s"] += time.time() - t0
                out["queries"] += 1
                if r2 == z3.sat:
                    m = s.model()
                    word = [m.eval(x, model_completion=True).as_long() for x in w]
                    inv = {v: k for k, v in lit.items()}
                    for j in range(N + 1):
                        if gram.recognizes(ga, word[:j]) != gram.recognizes(ref, word[:j]):
                            out["cand2"] = dict(word=word[:j], text="".join(inv.get(t, "?") for t in word[:j]), compiled_derives=gram.recognizes(ga, word[:j]), stage="optimised-grammar")
                            break
                elif r2 != z3.unsat:
                    out["status"] = "unknown"
                s.pop()
        except (ValueError, KeyError):
            pass
    if idx % 8 == 0 and len(ref.rules) > 2:
        rules = list(ref.rules)
        drop = max(range(1, len(rules)), key=lambda i: len(rules[i][1]))
        e3 = gram.CykEnc(gram.CFG(rules[:drop] + rules[drop + 1:], ref.start), w, "t")
        s.push()
        s.add(*e3.cons)
        s.add(z3.Or(*[z3.Xor(e1.derives(j), e3.derives(j)) for j in range(N + 1)]))
        t0 = time.time()
        out["twin"] = str(s.check())
        out["solver_s"] += time.time() - t0
        out["queries"] += 1
        s.pop()
    return out


def run():
    from concurrent.futures import ProcessPoolExecutor
    tm = Timer()
    tr, sd, prop = tier(), seed(), "C05"
    N = 8 if tr == "quick" else 10
    cases = gen_cases(tr, sd)
    inconclusive = []
    try:
        jobs = [dict(op="compile", kind="lark", text=c["text"], want=["grammar", "cgrammar", "lexemes", "automata"], max_states=200) for c in cases]
        results = e2.run_jobs(jobs)
    except RuntimeError as ex:
        write_evidence(prop, "translation_validation", dict(evaluations=1, distinct_nontrivial=0, samples=["exporter build failed"]), tm.s(), 0, [])
        print("INCONCLUSIVE property=%s: %s" % (prop, str(ex)[:500]))
        return EXIT_INCONCLUSIVE
    stats = dict(cases=len(cases), decided=0, queries=0, solver_s=0.0, twins=0, twins_sat=0, skipped=0, compile_errors=0, nullable_checked=0)
    viol = []
    cands = []
    samples = []
    work = [(i, dict(rules=c["rules"], names=c["names"], pref=c.get("pref")), results[i], N) for i, c in enumerate(cases)]
    with ProcessPoolExecutor(max_workers=14) as ex:
        for o in ex.map(_work, work, chunksize=2):
            i = o["idx"]
            c = cases[i]
            stats["queries"] += o["queries"]
            stats["solver_s"] += o["solver_s"]
            if o["status"] == "compile_error":
                stats["compile_errors"] += 1
                viol.append(("compile-error", dict(property=prop, grammar=c["text"], error=o["note"])))
                continue
            if o["status"] in ("skip", "skip_big"):
                stats["skipped"] += 1
                if o["status"] == "skip":
                    inconclusive.append("case %d: %s" % (i, o["note"]))
                continue
            if o["status"] == "unknown":
                inconclusive.append("solver unknown on case %d" % i)
                continue
            if o["status"] == "nonrepro":
                inconclusive.append("case %d: model not confirmed by the concrete recogniser" % i)
                continue
            stats["decided"] += 1
            if o["nullable"] is not None:
                stats["nullable_checked"] += 1
                if not o["nullable"][0]:
                    viol.append(("nullable-not-closed", dict(property=prop, grammar=c["text"], cgrammar=results[i]["cgrammar"], note="a rule with an all-nullable right-hand side has a left-hand side that is not flagged nullable")))
                if not o["nullable"][1]:
                    viol.append(("nullable-not-least", dict(property=prop, grammar=c["text"], cgrammar=results[i]["cgrammar"], note="a strictly smaller closed set of nullable symbols exists: some symbol is flagged nullable without deriving the empty word")))
            if o["cand"]:
                cands.append((i, o["cand"]))
            if o.get("cand2"):
                cands.append((i, o["cand2"]))
            if o["twin"] is not None:
                stats["twins"] += 1
                stats["twins_sat"] += (o["twin"] == "sat")
            if len(samples) < 10 and i % max(1, len(cases) // 9) == 0:
                samples.append(dict(origin=c["origin"], grammar=c["text"], rules_compiled_reference_terminals=o["sizes"], word_bound=N, nullable_flags_closed_and_least=o["nullable"]))
    # replay each distinguishing word on the real Matcher (byte = terminal)
    rjobs = [dict(op="replay", kind="lark", text=cases[i]["text"], bytes=list(cd["text"].encode("latin-1"))) for i, cd in cands]
    rres = e2.run_jobs(rjobs) if rjobs else []
    for (i, cd), rr in zip(cands, rres):
        c = cases[i]
        # reference verdicts on the concrete text
        lit = {}
        ref_tid = {ch: ord(ch) for ch in larkgen.TERMS}
        ref = larkgen.parametric_reference(c["pref"], ref_tid) if c.get("pref") else larkgen.reference_cfg(c, ref_tid)
        word = [ord(ch) for ch in cd["text"]]
        want_acc = gram.recognizes(ref, word)
        pg = gram.prefix_grammar(ref)
        k_ref = 0
        for k in range(len(word) + 1):
            if gram.recognizes(pg, word[:k]):
                k_ref = k
            else:
                break
        got_all = bool(rr.get("all"))
        differ = None
        if not rr.get("ok"):
            differ = "replay failed: %s" % str(rr.get("error"))[:200]
        elif rr.get("consumed") != k_ref:
            differ = "viable prefix: engine consumes %s bytes, reference %d of %r" % (rr.get("consumed"), k_ref, cd["text"])
        elif got_all and bool(rr.get("accepting")) != want_acc:
            differ = "complete string %r: engine accepting=%s, reference derives=%s" % (cd["text"], rr.get("accepting"), want_acc)
        if differ:
            key = "language-%s" % ("gained" if cd["compiled_derives"] else "lost")
            if cd.get("role"):
                key += "|" + cd["role"]
            elif cd.get("stage"):
                key += "|" + cd["stage"]
            viol.append((key, dict(property=prop, grammar=c["text"], text=cd["text"], difference=differ, cgrammar=results[i]["cgrammar"], role=cd.get("role"), symbol=cd.get("symbol"))))
        else:
            inconclusive.append("case %d: compiled table and reference differ on %r but the real Matcher agrees with the reference (table parse problem?)" % (i, cd["text"]))
    if stats["twins"] and stats["twins_sat"] * 2 < stats["twins"]:
        inconclusive.append("vacuity twins: %d of %d sat" % (stats["twins_sat"], stats["twins"]))
    reported = 0
    seen = set()
    known_hits = []
    for key, payload in viol:
        if key in seen:
            continue
        seen.add(key)
        k = match_known(prop, key)
        if k:
            print("KNOWN-FINDING: property=%s %s (%s)" % (prop, k.get("what"), key))
            known_hits.append(key)
            continue
        payload["key"] = key
        rp = save_replay(prop, "c05_%d" % reported, payload)
        print("VIOLATION property=%s replay=%s" % (prop, rp))
        log("  ", key, json.dumps(payload, default=str, ensure_ascii=False)[:500])
        reported += 1
    # E1 companion: ParamRef / ParamExpr / ParamCond evaluation against docs/parametric.md for every 64-bit value (Kani)
    from . import parser_props as pp
    from .e1check import E1Outcome, run_parser_groups, summarize
    e1o = E1Outcome()
    ps = pp.specs("grammar", "c05", "c05_fail")
    if tr == "quick":
        ps = [x for x in ps if "bitcount" not in x["name"]]
    run_parser_groups(prop, "c05", ["grammar"], ps, e1o, harness_timeout_s=900)
    for v in e1o.violations:
        if v.get("known"):
            continue
        if v.get("replay"):
            print("VIOLATION property=%s replay=%s" % (prop, v["replay"]))
            reported += 1
    inconclusive += e1o.inconclusive
    e1s = summarize(e1o)
    cov = dict(programs=stats["decided"], disagreements_checked=len(cands) + len(viol), samples=samples or [dict(note="none")], tier=tr, cases=len(cases),
               e1_param_eval=dict(harnesses=e1s["per_harness"], covers="%d/%d" % (e1s["covers_satisfied"], e1s["covers_total"]), solver_s=e1s["solver_s"]),
               decided=stats["decided"], skipped_too_large=stats["skipped"], nullable_tables_checked=stats["nullable_checked"], queries=stats["queries"],
               solver_s=round(stats["solver_s"], 2), vacuity_twins="%d/%d sat" % (stats["twins_sat"], stats["twins"]),
               functions_encoded=["lark/lexer.rs, lark/parser.rs, lark/compiler.rs do_atom/do_expr/do_expansions", "grammar_builder.rs select/join/optional/one_or_more/zero_or_more/repeat",
                                  "earley/grammar.rs optimize, CGrammar::from_grammar, set_nullable (flags checked as least fixed point)"],
               bounds=dict(terminal_word_length=N, terminals="single-byte literals a..e (confusion-free fragment)"), known_findings_reported=known_hits, inconclusive=inconclusive[:20])
    assumptions = ["compile level only: the compiled rule table + nullable flags are compared with the reference CFG; Earley scan/predict/complete at run time is outside the claim (a counterexample is replayed on the real Matcher, the absence of one says nothing about the interpreter)",
                   "reference CFG is built from the generator's AST by the documented meaning of ? * + {m,n} | grouping, independently of llguidance",
                   "parametric rules: only ParamExpr/ParamCond evaluation is decided (Kani harnesses under C05-E1)"]
    write_evidence(prop, "translation_validation", cov, tm.s(), reported, assumptions)
    if reported:
        return EXIT_VIOLATION
    if settle(prop, inconclusive, len(cases)):
        return EXIT_INCONCLUSIVE
    print("OK property=%s tier=%s cases=%d decided=%d queries=%d (%.0fs)" % (prop, tr, len(cases), stats["decided"], stats["queries"], tm.s()))
    return EXIT_OK
