"""C15 — grammar optimisation preserves the language. E2: Grammar::to_string before/after the real Grammar::optimize(),
compared by a two-sided CYK encoding on a shared symbolic terminal word (z3)."""
import glob
import json
import os
import random
import re
import time

import z3

from . import e2, gram, larkgen
from .common import (EXIT_INCONCLUSIVE, EXIT_OK, EXIT_VIOLATION, REPO, Timer, log, match_known, save_replay, seed, settle, tier, write_evidence)

HAND = [
    "start: a b\na: \"x\" | a \"y\"\nb: /[0-9]+/ | \"\"\n",
    "start: a\na: b\nb: c\nc: \"q\" c | \"r\"\n",
    "start: x x\nx: y\ny: \"a\" | \"b\" y\n",
    "start: (\"a\" | b)* c?\nb: \"b\" \"b\"\nc[capture]: \"c\" d\nd: \"d\"\n",
    "start: l\nl: \"a\" l \"b\" | m\nm[max_tokens=4]: \"c\"+\n",
    "start: p q\np: \"\" | \"a\" p\nq: \"b\"? \"c\"{2,3}\n",
    "start: one two\none: only\nonly: \"a\" \"b\"\ntwo: only | \"z\"\n",
]

JSON_HAND = [
    {"type": "object", "properties": {"a": {"type": "integer"}, "b": {"type": "array", "items": {"type": "boolean"}, "maxItems": 3}}, "required": ["a"], "additionalProperties": False},
    {"anyOf": [{"type": "null"}, {"type": "array", "items": {"$ref": "#"}}]},
    {"type": "array", "prefixItems": [{"const": 1}, {"enum": ["x", "y"]}], "items": {"type": "null"}, "minItems": 1, "maxItems": 4},
    {"type": "object", "properties": {"k": {"type": "object", "properties": {"z": {"const": True}}, "additionalProperties": False}}, "additionalProperties": {"type": "null"}},
]


def parametric_cases(rng, n):
    """parametric grammars (docs/parametric.md): counters, permutations, guard-only rules referenced once / twice, forwarding guards"""
    out = []
    conds = ["ge(_, %d)", "le(_, %d)", "eq(_, %d)", "ne(_, %d)", "bit_set(%d)", "bit_clear(%d)", "bit_count_ge(_, %d)", "gt([0:4], %d)"]
    for i in range(n):
        k = rng.randint(0, 3)
        c = rng.choice(conds) % k
        form = rng.randint(0, 7)
        if form == 0:
            g = 'start: item::0\nitem::_: "a" item::incr([0:3]) | tail::_\ntail::_: "!" %%if %s\n' % c
        elif form == 1:
            g = 'start: item::0\nitem::_: "a" item::incr([0:3]) | tail::_ | "b" tail::_\ntail::_: "!" %%if %s\n' % c
        elif form == 2:
            g = 'start: item::0\nitem::_: "a" item::incr([0:3]) | fwd::_\nfwd::_: tail::_ %%if %s\ntail::_: "!" | "?" "!"\n' % c
        elif form == 3:
            nb = rng.randint(2, 3)
            alts = ['""                       %%if is_ones([0:%d])' % nb] + ['"%s" perm::set_bit(%d)     %%if bit_clear(%d)' % ("abc"[j], j, j) for j in range(nb)]
            g = "start    :  perm::0x0\nperm::_  :  " + "\n         |  ".join(alts) + "\n"
        elif form == 4:
            g = 'start: a::%d\na::_: "x" b::_ | "y"\nb::_: c::decr(_) %%if %s\nc::_: "z" a::_ | "w"\n' % (rng.randint(0, 3), c)
        elif form == 6:
            # a rule whose whole body is one reference that transforms the parameter: not an alias
            tf = rng.choice(["incr([0:2])", "incr([0:3])", "decr([0:2])", "set_bit(1)", "bit_or(2)", "bit_and(5)"])
            g = 'start: loop::%d\nloop::_ : body::%s\nbody::_ : "a" loop::_\n        | "c" loop::_\n        | "b"   %%if %s\n' % (rng.randint(0, 3), tf, c)
        elif form == 7:
            tf = rng.choice(["incr([0:2])", "set_bit(0)", "bit_or(4)", "decr([0:3])"])
            g = 'start: "d" w::%d\nw::_ : v::%s\nv::_ : "a" w::_ "e" | "b" %%if %s\n' % (rng.randint(0, 5), tf, c)
        else:
            g = 'start: cnt::0 "."\ncnt::_: "a" cnt::incr([0:2]) | done::_\ndone::_: "" %%if %s\n' % c
        out.append(dict(kind="lark", text=g, origin="parametric"))
    return out


PARAM_HAND = [
    'start: loop::0\nloop::_ : body::incr([0:3])\nbody::_ : "a" loop::_ | "c" loop::_ | "b" %if ge(_, 3)\n',
    'start: "d" w::1\nw::_ : v::set_bit(1)\nv::_ : "a" w::_ "e" | "b" %if bit_set(1)\n',
    'start: p::0 "X"\np::_: "a" %if bit_set(0) | p::set_bit(0) %if bit_clear(0)\n',
    'start: p::0\np::_: "." | "a" q::_\nq::_: "b" p::incr([0:2])\n',
    'start    :  perm::0x0\nperm::_  :  ""                       %if is_ones([0:3])\n         |  "a" perm::set_bit(0)     %if bit_clear(0)\n         |  "b" perm::set_bit(1)     %if bit_clear(1)\n         |  "c" perm::set_bit(2)     %if bit_clear(2)\n',
]


def corpus(tr, sd):
    cases = [dict(kind="lark", text=t, origin="parametric-hand") for t in PARAM_HAND]
    cases += parametric_cases(random.Random(1700 + sd), 24 if tr == "quick" else 200)
    for t in HAND:
        cases.append(dict(kind="lark", text=t, origin="hand"))
    for s in JSON_HAND:
        cases.append(dict(kind="json", schema=s, origin="hand-json"))
    # Lark snippets found in the repository's own tests and docs (those that compile)
    found = set()
    for path in glob.glob(os.path.join(REPO, "parser/tests/*.rs")) + glob.glob(os.path.join(REPO, "sample_parser/tests/*.rs")) + glob.glob(os.path.join(REPO, "docs/*.md")):
        try:
            txt = open(path, encoding="utf-8", errors="replace").read()
        except OSError:
            continue
        for m in re.finditer(r'r#"(.*?)"#', txt, re.S):
            body = m.group(1)
            if "start:" in body and len(body) < 1500 and "%llguidance" not in body[:0]:
                found.add(body)
        for m in re.finditer(r"```lark\n(.*?)```", txt, re.S):
            body = m.group(1)
            if "start:" in body and len(body) < 1500:
                found.add(body)
    found = sorted(found)
    rng = random.Random(1500 + sd)
    if tr == "quick":
        found = rng.sample(found, min(25, len(found)))
    for b in found:
        cases.append(dict(kind="lark", text=b, origin="repo"))
    n = 250 if tr == "quick" else 900
    for i in range(n):
        g = larkgen.gen_grammar(rng)
        cases.append(dict(kind="lark", text=g["text"], origin="seed%d" % sd))
    return cases


def props_multiset(g):
    out = []
    for name, pr in g.props.items():
        out.append(tuple(sorted(p for p in pr)))
    return sorted(out)


def _work(args):
    idx, res, N = args
    out = dict(idx=idx, status="ok", queries=0, solver_s=0.0, cand=None, twin=None, sizes=None, props_ok=True, note=None)
    if not res.get("ok"):
        out["status"] = "compile_error"
        out["note"] = str(res.get("error"))[:200]
        return out
    gb = gram.parse_grammar_text(res["grammar_before"])
    ga = gram.parse_grammar_text(res["grammar_after"])
    if gb.conds or ga.conds or getattr(gb, "parametric", None):
        out["status"] = "parametric"
        # full language comparison on the grammar expanded over the reachable (symbol, parameter) pairs, by docs/parametric.md
        try:
            gb = gram.expand_parametric(gb)
            ga = gram.expand_parametric(ga)
        except ValueError as ex:
            out["note2"] = "expansion: %s" % ex
        # parametric grammars: compare the rule conditions syntactically (multiset), language comparison on the skeleton below
        cb = sorted(gb.conds.values())
        ca = sorted(ga.conds.values())
        if cb != ca:
            out["note"] = "conditions differ: %s vs %s" % (cb[:3], ca[:3])
    terms = gb.terminals() | ga.terminals()
    out["sizes"] = (len(gb.rules), len(ga.rules), len(terms))
    if len(gb.trimmed().binarized().nonterminals()) > 90:
        out["status"] = "skip"
        out["note"] = "grammar too large for the bound"
        return out
    # side condition: symbols carrying capture / token limit survive
    if props_multiset(gb) != props_multiset(ga):
        out["props_ok"] = False
        out["note"] = "special symbols before %s after %s" % (props_multiset(gb), props_multiset(ga))
    if not terms:
        return out
    w, wc = gram.sym_word(N, terms)
    e1 = gram.CykEnc(gb, w, "b")
    e2_ = gram.CykEnc(ga, w, "a")
    s = z3.Solver()
    s.set("timeout", 180000)
    s.add(*wc)
    s.add(*e1.cons)
    s.add(*e2_.cons)
    s.push()
    s.add(z3.Or(*[z3.Xor(e1.derives(j), e2_.derives(j)) for j in range(N + 1)]))
    t0 = time.time()
    r = s.check()
    out["solver_s"] += time.time() - t0
    out["queries"] += 1
    if r == z3.sat:
        m = s.model()
        word = [m.eval(x, model_completion=True).as_long() for x in w]
        # shortest distinguishing prefix
        for j in range(N + 1):
            if gram.recognizes(gb, word[:j]) != gram.recognizes(ga, word[:j]):
                out["cand"] = word[:j]
                break
        if out["cand"] is None:
            out["status"] = "nonrepro"
    elif r != z3.unsat:
        out["status"] = "unknown"
    s.pop()
    if idx % 6 == 0 and len(ga.rules) > 1:
        # vacuity twin: drop one rule of the optimised grammar -> must become distinguishable (or the rule was redundant)
        rules = list(ga.rules)
        drop = max(range(len(rules)), key=lambda i: len(rules[i][1]))
        g3 = gram.CFG(rules[:drop] + rules[drop + 1:], ga.start)
        if g3.start in g3.productive() or True:
            e3 = gram.CykEnc(g3, w, "t")
            s.push()
            s.add(*e3.cons)
            s.add(z3.Or(*[z3.Xor(e1.derives(j), e3.derives(j)) for j in range(N + 1)]))
            t0 = time.time()
            r3 = s.check()
            out["solver_s"] += time.time() - t0
            out["queries"] += 1
            out["twin"] = str(r3)
            s.pop()
    return out


def run():
    from concurrent.futures import ProcessPoolExecutor
    tm = Timer()
    tr, sd, prop = tier(), seed(), "C15"
    N = 8 if tr == "quick" else 10
    cases = corpus(tr, sd)
    inconclusive = []
    try:
        jobs = []
        for c in cases:
            j = dict(op="compile", kind=c["kind"], want=["grammar"])
            if c["kind"] == "json":
                j["schema"] = c["schema"]
            else:
                j["text"] = c["text"]
            jobs.append(j)
        results = e2.run_jobs(jobs)
    except RuntimeError as ex:
        write_evidence(prop, "translation_validation", dict(evaluations=1, distinct_nontrivial=0, samples=["exporter build failed"]), tm.s(), 0, [])
        print("INCONCLUSIVE property=%s: %s" % (prop, str(ex)[:500]))
        return EXIT_INCONCLUSIVE
    stats = dict(cases=len(cases), decided=0, compile_errors=0, skipped=0, queries=0, solver_s=0.0, twins=0, twins_sat=0, changed=0, unknown=0, parametric=0)
    viol = []
    samples = []
    work = [(i, results[i], N) for i in range(len(cases))]
    with ProcessPoolExecutor(max_workers=14) as ex:
        for o in ex.map(_work, work, chunksize=2):
            i = o["idx"]
            c = cases[i]
            stats["queries"] += o["queries"]
            stats["solver_s"] += o["solver_s"]
            if o["status"] == "compile_error":
                stats["compile_errors"] += 1
                continue
            if o["status"] == "skip":
                stats["skipped"] += 1
                continue
            if o["status"] == "unknown":
                stats["unknown"] += 1
                inconclusive.append("solver unknown on case %d" % i)
                continue
            if o["status"] == "nonrepro":
                inconclusive.append("case %d: solver model not confirmed by the concrete recogniser (encoder bug)" % i)
                continue
            if o["status"] == "parametric":
                stats["parametric"] += 1
                if o["note"]:
                    viol.append(("parametric-conditions", dict(property=prop, case=c, note=o["note"])))
            stats["decided"] += 1
            if results[i].get("grammar_before") != results[i].get("grammar_after"):
                stats["changed"] += 1
            if not o["props_ok"]:
                viol.append(("special-symbol-lost", dict(property=prop, case=c, note=o["note"], grammar_before=results[i]["grammar_before"], grammar_after=results[i]["grammar_after"])))
            if o["cand"] is not None:
                gb = gram.parse_grammar_text(results[i]["grammar_before"])
                inb = gram.recognizes(gb, o["cand"])
                viol.append(("language-%s" % ("lost" if inb else "gained"), dict(property=prop, case=c, terminal_word=o["cand"], in_before=inb, in_after=not inb,
                                                                                grammar_before=results[i]["grammar_before"], grammar_after=results[i]["grammar_after"])))
            if o["twin"] is not None:
                stats["twins"] += 1
                stats["twins_sat"] += (o["twin"] == "sat")
            if len(samples) < 10 and i % max(1, len(cases) // 9) == 0:
                samples.append(dict(origin=c["origin"], grammar=(c.get("text") or json.dumps(c.get("schema")))[:300], rules_before_after_terminals=o["sizes"], word_bound=N))
    if stats["twins"] and stats["twins_sat"] * 2 < stats["twins"]:
        inconclusive.append("vacuity twins: only %d of %d grammars with one rule dropped were distinguishable" % (stats["twins_sat"], stats["twins"]))
    if stats["changed"] == 0:
        inconclusive.append("optimisation changed no grammar of the corpus: vacuous run")
    reported = 0
    seen = set()
    known_hits = []
    for key, payload in viol:
        if key in seen:
            continue
        seen.add(key)
        k = match_known(prop, key)
        if k:
            print("KNOWN-FINDING: property=%s %s (%s)" % (prop, k.get("what"), key))
            known_hits.append(key)
            continue
        payload["key"] = key
        payload["how_to_replay"] = "./check replay <this file>: re-exports the grammar before/after Grammar::optimize() from /repo and re-runs the concrete recogniser on the word"
        rp = save_replay(prop, "c15_%d" % reported, payload)
        print("VIOLATION property=%s replay=%s" % (prop, rp))
        log("  ", key, json.dumps(payload, default=str, ensure_ascii=False)[:400])
        reported += 1
    # E1 companion: the union-find used by expand_shortcuts, on symbolic acyclic parent arrays of 6 symbols (Kani)
    from . import parser_props as pp
    from .e1check import E1Outcome, run_parser_groups, summarize
    e1o = E1Outcome()
    uf = pp.specs("grammar", "c15")
    if tr == "quick":
        uf = [x for x in uf if "uf_union" not in x["name"]]
    run_parser_groups(prop, "c15", ["grammar"], uf, e1o, harness_timeout_s=900)
    for v in e1o.violations:
        if v.get("known"):
            continue
        if v.get("replay"):
            print("VIOLATION property=%s replay=%s" % (prop, v["replay"]))
            reported += 1
    inconclusive += e1o.inconclusive
    e1s = summarize(e1o)
    cov = dict(programs=stats["decided"], disagreements_checked=len(viol), samples=samples or [dict(note="none")], tier=tr, cases=len(cases),
               e1_union_find=dict(harnesses=e1s["per_harness"], covers="%d/%d" % (e1s["covers_satisfied"], e1s["covers_total"]), solver_s=e1s["solver_s"]),
               decided=stats["decided"], grammars_changed_by_optimize=stats["changed"], compile_errors_skipped=stats["compile_errors"], too_large=stats["skipped"],
               parametric=stats["parametric"], queries=stats["queries"], solver_s=round(stats["solver_s"], 2), vacuity_twins="%d/%d sat" % (stats["twins_sat"], stats["twins"]),
               functions_encoded=["earley/grammar.rs Grammar::optimize / expand_shortcuts / uf_find / uf_union / uf_compress_all / rename / copy_from (run natively; both outputs exported with Grammar::to_string)",
                                  "lark front end + grammar_builder.rs and json/compiler.rs as producers of the input grammars"],
               bounds=dict(terminal_word_length=N, max_nonterminals_after_binarisation=90), known_findings_reported=known_hits, inconclusive=inconclusive[:20])
    assumptions = ["terminal sequences are compared (lexemes are atoms); the Earley interpreter is not involved",
                   "every solver model is confirmed by an independent concrete CYK recogniser on the exported before/after grammars before it is reported",
                   "parametric grammars: rule conditions compared as multisets, language compared on the non-parametric skeleton",
                   "words longer than the bound are outside the claim"]
    write_evidence(prop, "translation_validation", cov, tm.s(), reported, assumptions)
    if reported:
        return EXIT_VIOLATION
    if settle(prop, inconclusive, len(cases)):
        return EXIT_INCONCLUSIVE
    print("OK property=%s tier=%s cases=%d decided=%d changed=%d queries=%d (%.0fs)" % (prop, tr, len(cases), stats["decided"], stats["changed"], stats["queries"], tm.s()))
    return EXIT_OK
