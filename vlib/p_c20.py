"""C20 — arbitrary input never crashes the engine (kernel level only). E1: freedom from panics / overflow / out-of-bounds for every
input of the listed arithmetic and index kernels."""
from . import parser_props as pp
from .common import Timer, tier
from .e1check import E1Outcome, e1_coverage, finish, run_parser_groups, run_toktrie_groups

ASSUMPTIONS = [
    "kernel level ONLY: Decimal::new / checked_lcm / gcd64, normalize_integer_bounds, get_minimum/get_maximum, ParamRef/ParamExpr/ParamCond, Item packing, "
    "valid_utf8_len, TrieNode packing, token_len. 'Any grammar text / schema / regex however malformed', resource limits, sticky failure and "
    "hangs are whole-program behaviour with input-dependent loops and are NOT decided",
    "Kani dev-profile semantics: arithmetic overflow is a failed check (in release builds it would wrap silently)",
    "protocol layers (E1c whole-function slices of the current tokenparser.rs / matcher.rs over stub collaborators, shared with C18): a token id outside the vocabulary, a stopped engine and a failed Matcher keep reporting the failure on every later call and never reach the parser again; no assert!/unwrap/index panic of the sliced functions is reachable for any stub answer",
    "bounds: lcm exponents <= 2 and one coefficient <= 12 (recursion depth of gcd64), gcd64 on 10-bit operands, valid_utf8_len on buffers <= 6 bytes, f64 bounds in [-1e6, 1e6]",
]


def run():
    tm = Timer()
    out = E1Outcome()
    t = tier()
    specs = pp.specs("numeric", "c20", "c20_fail") + pp.specs("numeric", "c08") + pp.specs("stop", "c20") + pp.specs("parser", "c20") + pp.specs("grammar", "c05", "c05_fail")
    # sticky failure and freedom from panics in the protocol layers (E1c function slices, shared with C18)
    specs += [x for x in pp.specs("tpproto", "c18") if "out_of_range" in x["name"] or "stopped_is_final" in x["name"]]
    specs += [x for x in pp.specs("mproto", "c18") if "error_is_sticky" in x["name"]]
    if t == "quick":
        drop = ("c08_decimal_lcm_small", "bitcount_le_lt", "bitcount_ge_gt", "c20_gcd")
        specs = [s for s in specs if not any(d in s["name"] for d in drop)]
    info = run_parser_groups("C20", "c20", ["numeric", "stop", "parser", "grammar", "tpproto", "mproto"], specs, out, harness_timeout_s=900, mem_gb=40)
    info2, _ = run_toktrie_groups("C20", "c20t", {"toklen"}, out, tokenv=False, select=lambda s: "toklen" in s["name"] or "k16_2" in s["name"])
    cov = e1_coverage(out, [dict(harness=s["name"]) for s in specs[:10]],
                      ["json/numeric.rs Decimal::new, Decimal::checked_lcm, gcd64, normalize_integer_bounds", "json/schema.rs NumberSchema::get_minimum/get_maximum",
                       "earley/grammar.rs ParamRef::{new,mask,eval}, ParamExpr::eval, ParamCond::eval", "earley/parser.rs Item::{new,rhs_ptr,start_pos,advance_dot,rewind_dot}",
                       "stop_controller.rs valid_utf8_len", "toktrie toktree.rs TrieNode packing, token_len",
                       "tokenparser.rs TokenParser::{consume_token, compute_mask_inner, validate_*, rollback, stop, check_initialized} and matcher.rs Matcher::{with_inner, ...} (whole-function slices)"],
                      dict(see="assumptions"), dict(tier=t, stubs=["alloc::fmt::format (only in harnesses that declare it)"], kani_wall_s=info.get("kani_wall_s", 0) + info2.get("kani_wall_s", 0)))
    return finish("C20", out, tm, "model_checking", cov, ASSUMPTIONS)
