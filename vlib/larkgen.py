"""Seeded generators of Lark grammars over single-byte terminals, together with a reference CFG built from the same AST
(by the documented meaning of the operators, not by llguidance's compiler)."""
import random

TERMS = "abcde"


class G:
    """expression AST: ('t', ch) | ('r', name) | ('seq', [..]) | ('alt', [..]) | ('opt', x) | ('star', x) | ('plus', x) | ('rep', x, m, n|None)"""


def gen_expr(rng, rules, depth, terms):
    r = rng.random()
    if depth >= 3 or r < 0.3:
        if rules and rng.random() < 0.45:
            return ("r", rng.choice(rules))
        return ("t", rng.choice(terms))
    if r < 0.55:
        return ("seq", [gen_expr(rng, rules, depth + 1, terms) for _ in range(rng.randint(2, 3))])
    if r < 0.75:
        return ("alt", [gen_expr(rng, rules, depth + 1, terms) for _ in range(rng.randint(2, 3))])
    x = gen_expr(rng, rules, depth + 1, terms)
    c = rng.random()
    if c < 0.3:
        return ("opt", x)
    if c < 0.5:
        return ("star", x)
    if c < 0.7:
        return ("plus", x)
    m = rng.randint(0, 3)
    if rng.random() < 0.25:
        return ("rep", x, m, None)
    return ("rep", x, m, max(1, m + rng.randint(0, 3)))


def to_lark(e, top=False):
    k = e[0]
    if k == "t":
        return '"%s"' % e[1]
    if k == "r":
        return e[1]
    if k == "seq":
        s = " ".join(to_lark(x) for x in e[1])
        return s if top else "(" + s + ")"
    if k == "alt":
        s = " | ".join(to_lark(x, False) for x in e[1])
        return s if top else "(" + s + ")"
    if k == "empty":
        return '""'
    inner = to_lark(e[1])
    if not (inner.startswith("(") or inner.startswith('"') or e[1][0] == "r"):
        inner = "(" + inner + ")"
    if e[1][0] in ("opt", "star", "plus", "rep"):
        inner = "(" + inner + ")"
    if k == "opt":
        return inner + "?"
    if k == "star":
        return inner + "*"
    if k == "plus":
        return inner + "+"
    if k == "rep":
        m, n = e[2], e[3]
        if n is None:
            return inner + "{%d,}" % m
        if m == n:
            return inner + "{%d}" % m
        return inner + "{%d,%d}" % (m, n)
    raise ValueError(k)


class RefBuilder:
    def __init__(self, term_id):
        self.rules = []
        self.cnt = 0
        self.term_id = term_id

    def fresh(self):
        self.cnt += 1
        return "_x%d" % self.cnt

    def sym(self, e):
        """returns a symbol (('T',id) or ('N',name)) whose language is L(e)"""
        k = e[0]
        if k == "t":
            return ("T", self.term_id[e[1]])
        if k == "r":
            return ("N", e[1])
        n = self.fresh()
        if k == "empty":
            self.rules.append((n, []))
        elif k == "seq":
            self.rules.append((n, [self.sym(x) for x in e[1]]))
        elif k == "alt":
            for x in e[1]:
                self.rules.append((n, [self.sym(x)]))
        elif k == "opt":
            self.rules.append((n, []))
            self.rules.append((n, [self.sym(e[1])]))
        elif k == "star":
            s = self.sym(e[1])
            self.rules.append((n, []))
            self.rules.append((n, [s, ("N", n)]))
        elif k == "plus":
            s = self.sym(e[1])
            self.rules.append((n, [s]))
            self.rules.append((n, [s, ("N", n)]))
        elif k == "rep":
            s = self.sym(e[1])
            m, mx = e[2], e[3]
            if mx is None:
                st = self.fresh()
                self.rules.append((st, []))
                self.rules.append((st, [s, ("N", st)]))
                self.rules.append((n, [s] * m + [("N", st)]))
            else:
                for c in range(m, mx + 1):
                    self.rules.append((n, [s] * c))
        else:
            raise ValueError(k)
        return ("N", n)


def gen_grammar(rng, n_rules=None, attrs=True, terms=TERMS):
    """returns dict(text=<lark>, rules={name: expr}, attrs={name: attr string})"""
    n_rules = n_rules or rng.randint(2, 6)
    names = ["start"] + ["r%d" % i for i in range(1, n_rules)]
    rules = {}
    at = {}
    for i, nm in enumerate(names):
        # references mostly forward (productive by construction), sometimes backward/self for recursion
        later = names[i + 1:]
        pool = list(later)
        if rng.random() < 0.35:
            pool.append(rng.choice(names))
        shape = rng.random()
        if shape < 0.15 and later:
            e = ("r", rng.choice(later))                       # chain  a: b
        elif shape < 0.25:
            e = ("alt", [("empty",), gen_expr(rng, pool, 1, terms)])   # nullable rule
        else:
            e = gen_expr(rng, pool, 0, terms)
        # guarantee a non-recursive alternative so that the rule is productive
        if _mentions(e, names[: i + 1]):
            e = ("alt", [e, ("t", rng.choice(terms))])
        rules[nm] = e
        if attrs and nm != "start":
            r = rng.random()
            if r < 0.12:
                at[nm] = "[capture]"
            elif r < 0.3 and not _mentions(e, names):
                # max_tokens is only supported on terminals: a rule whose body is a pure terminal expression
                at[nm] = "[max_tokens=%d]" % rng.randint(2, 9)
    # make sure every rule is referenced from somewhere before it (reachable) - otherwise lark may warn/ignore
    for i in range(1, len(names)):
        if not any(_mentions(rules[n], [names[i]]) for n in names[:i]):
            tgt = rng.choice(names[:i])
            rules[tgt] = ("seq", [rules[tgt], ("opt", ("r", names[i]))]) if rng.random() < 0.5 else ("alt", [rules[tgt], ("r", names[i])])
    text = ""
    for nm in names:
        text += "%s%s: %s\n" % (nm, at.get(nm, ""), to_lark(rules[nm], True))
    return dict(text=text, rules=rules, attrs=at, names=names)


def _mentions(e, names):
    k = e[0]
    if k == "r":
        return e[1] in names
    if k in ("t", "empty"):
        return False
    if k in ("seq", "alt"):
        return any(_mentions(x, names) for x in e[1])
    return _mentions(e[1], names)


def reference_cfg(gr, term_id):
    from .gram import CFG
    rb = RefBuilder(term_id)
    out = []
    for nm in gr["names"]:
        s = rb.sym(gr["rules"][nm])
        out.append((nm, [s]))
    return CFG(out + rb.rules, "start")


# ------------------------------------------------------------------ parametric grammars with a reference in the same structured form
def gen_parametric(rng):
    """returns dict(text=<lark>, pref=(rules, conds, params, parametric_set, start)) ; terminals are single characters"""
    conds = ["ge(_, %d)", "le(_, %d)", "eq(_, %d)", "ne(_, %d)", "bit_set(%d)", "bit_clear(%d)", "bit_count_ge(_, %d)", "gt([0:4], %d)", "lt([1:3], %d)"]
    k = rng.randint(0, 3)
    c = rng.choice(conds) % k
    form = rng.randint(0, 9)
    R = []   # (lhs, [(kind, sym, param)], cond)
    if form == 0:
        text = 'start: item::0\nitem::_: "a" item::incr([0:3]) | tail::_\ntail::_: "b" %%if %s\n' % c
        R = [("start", [("N", "item", "0")], None), ("item", [("T", "a", None), ("N", "item", "incr([0:3])")], None), ("item", [("N", "tail", "_")], None), ("tail", [("T", "b", None)], c)]
        par = {"item", "tail"}
    elif form == 1:
        nb = rng.randint(2, 3)
        alts = ['""                       %%if is_ones([0:%d])' % nb] + ['"%s" perm::set_bit(%d)     %%if bit_clear(%d)' % ("abc"[j], j, j) for j in range(nb)]
        text = "start    :  perm::0x0\nperm::_  :  " + "\n         |  ".join(alts) + "\n"
        R = [("start", [("N", "perm", "0")], None), ("perm", [], "is_ones([0:%d])" % nb)] + [("perm", [("T", "abc"[j], None), ("N", "perm", "set_bit(%d)" % j)], "bit_clear(%d)" % j) for j in range(nb)]
        par = {"perm"}
    elif form == 2:
        s0 = rng.randint(0, 3)
        text = 'start: a::%d\na::_: "a" b::_ | "d"\nb::_: c::decr(_) %%if %s\nc::_: "c" a::_ | "e"\n' % (s0, c)
        R = [("start", [("N", "a", str(s0))], None), ("a", [("T", "a", None), ("N", "b", "_")], None), ("a", [("T", "d", None)], None),
             ("b", [("N", "c", "decr(_)")], c), ("c", [("T", "c", None), ("N", "a", "_")], None), ("c", [("T", "e", None)], None)]
        par = {"a", "b", "c"}
    elif form == 3:
        text = 'start: cnt::0 "d"\ncnt::_: "a" cnt::incr([0:2]) | done::_\ndone::_: "" %%if %s\n' % c
        R = [("start", [("N", "cnt", "0"), ("T", "d", None)], None), ("cnt", [("T", "a", None), ("N", "cnt", "incr([0:2])")], None), ("cnt", [("N", "done", "_")], None), ("done", [], c)]
        par = {"cnt", "done"}
    elif form == 5:
        # a rule whose whole body is one reference that transforms the parameter (must not be treated as an alias)
        tf = rng.choice(["incr([0:2])", "incr([0:3])", "decr([0:2])", "set_bit(1)", "bit_or(2)", "bit_and(5)"])
        s0 = rng.randint(0, 3)
        text = 'start: loop::%d\nloop::_ : body::%s\nbody::_ : "a" loop::_\n        | "c" loop::_\n        | "b"   %%if %s\n' % (s0, tf, c)
        R = [("start", [("N", "loop", str(s0))], None), ("loop", [("N", "body", tf)], None), ("body", [("T", "a", None), ("N", "loop", "_")], None),
             ("body", [("T", "c", None), ("N", "loop", "_")], None), ("body", [("T", "b", None)], c)]
        par = {"loop", "body"}
    elif form == 6:
        tf = rng.choice(["incr([0:2])", "set_bit(0)", "bit_or(4)", "decr([0:3])"])
        s0 = rng.randint(0, 5)
        text = 'start: "d" w::%d\nw::_ : v::%s\nv::_ : "a" w::_ "e" | "b" %%if %s\n' % (s0, tf, c)
        R = [("start", [("T", "d", None), ("N", "w", str(s0))], None), ("w", [("N", "v", tf)], None), ("v", [("T", "a", None), ("N", "w", "_"), ("T", "e", None)], None), ("v", [("T", "b", None)], c)]
        par = {"w", "v"}
    elif form == 7:
        # an empty alternative guarded by a compound condition (negation over and/or): decides when the symbol may be skipped
        atoms = ["bit_set(0)", "bit_set(1)", "bit_clear(2)", "ge(_, 2)", "eq([0:2], 1)", "bit_count_ge(_, 2)"]
        a1, a2 = rng.sample(atoms, 2)
        cc = rng.choice(["not(or(%s, %s))", "not(and(%s, %s))", "and(%s, not(%s))", "or(not(%s), %s)", "not(not(and(%s, %s)))", "and(not(%s), not(%s))"]) % (a1, a2)
        s0 = rng.randint(0, 7)
        text = 'start: opt::%d "e"\nopt::_ : "a" | "" %%if %s\n' % (s0, cc)
        R = [("start", [("N", "opt", str(s0)), ("T", "e", None)], None), ("opt", [("T", "a", None)], None), ("opt", [], cc)]
        par = {"opt"}
    elif form == 8:
        atoms = ["bit_set(0)", "bit_set(1)", "le(_, 1)", "ne([0:2], 2)"]
        a1, a2 = rng.sample(atoms, 2)
        cc = rng.choice(["not(or(%s, %s))", "not(and(%s, %s))", "or(%s, %s)", "and(%s, %s)"]) % (a1, a2)
        s0 = rng.randint(0, 3)
        # nullability through a chain: outer is skippable only if inner is, at the same parameter
        text = 'start: "d" outer::%d "e"\nouter::_ : inner::_ | "c"\ninner::_ : "b" | "" %%if %s\n' % (s0, cc)
        R = [("start", [("T", "d", None), ("N", "outer", str(s0)), ("T", "e", None)], None), ("outer", [("N", "inner", "_")], None), ("outer", [("T", "c", None)], None),
             ("inner", [("T", "b", None)], None), ("inner", [], cc)]
        par = {"outer", "inner"}
    elif form == 9:
        # a skippable symbol reached through a reference that transforms the parameter: a::p may be skipped only if b::f(p) may
        tf = rng.choice(["incr([0:2])", "set_bit(0)", "bit_or(2)", "decr([0:2])", "bit_and(1)"])
        cc = rng.choice(["is_zeros([0:2])", "bit_clear(0)", "eq(_, 1)", "ge(_, 2)", "bit_set(1)"])
        s0 = rng.randint(0, 3)
        text = 'start: a::%d "e"\na::_ : "c" | b::%s\nb::_ : "d" | "" %%if %s\n' % (s0, tf, cc)
        R = [("start", [("N", "a", str(s0)), ("T", "e", None)], None), ("a", [("T", "c", None)], None), ("a", [("N", "b", tf)], None),
             ("b", [("T", "d", None)], None), ("b", [], cc)]
        par = {"a", "b"}
    else:
        m = rng.choice([3, 5, 6])
        text = 'start: x::%d\nx::_: "a" x::bit_and(%d) %%if %s\n    | "b" x::bit_or(1) %%if bit_clear(0)\n    | "c"\n' % (rng.randint(0, 7), m, c)
        s0 = int(text.split("x::")[1].split("\n")[0])
        R = [("start", [("N", "x", str(s0))], None), ("x", [("T", "a", None), ("N", "x", "bit_and(%d)" % m)], c), ("x", [("T", "b", None), ("N", "x", "bit_or(1)")], "bit_clear(0)"), ("x", [("T", "c", None)], None)]
        par = {"x"}
    return dict(text=text, pref=(R, par))


def parametric_reference(pref, term_id):
    from .gram import CFG, expand_parametric
    R, par = pref
    rules, conds, params = [], {}, {}
    for i, (l, rhs, cond) in enumerate(R):
        rules.append((l, [("T", term_id[s]) if k == "T" else ("N", s) for k, s, p in rhs]))
        params[i] = [p for k, s, p in rhs]
        if cond:
            conds[i] = cond
    g = CFG(rules, "start")
    g.conds, g.params, g.parametric = conds, params, set(par)
    return expand_parametric(g)
