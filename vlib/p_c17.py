"""C17 — the C API stays inside caller buffers (buffer half). E1: Kani over the mask-copy statements of ffi_par.rs (source slice),
the slice bounds of llg_matcher_compute_mask_into and the token range test of llg_commit_token."""
from . import parser_props as pp
from .common import Timer, tier
from .e1check import E1Outcome, e1_coverage, finish, run_parser_groups

ASSUMPTIONS = [
    "bounded model checking (Kani 0.68/CBMC 6.11), unwinding assertions on",
    "K17.1: the statements of the rayon closure of ffi_par.rs between `if let Some(constraint) = &mut cc.constraint {` and its closing brace are cut out of /repo's current source on every run and included into a mock environment (same names; REAL SimpleVob / StepResult types); the rayon scheduling, catch_unwind and set_error are not executed",
    "vocabulary size V and the result kind are concrete per instance (V in {5,31,32,33,63,64}, destination 0..4 words: smaller than, equal to and larger than the mask); mask contents and eos id symbolic. Reason: Kani mis-models ptr::write_bytes with a symbolic count (3-line probe fails) and a symbolic allocation length exhausts CBMC",
    "K17.4 (E1c whole-function slices): llg_matcher_{compute_mask_into, compute_mask, get_mask, get_mask_byte_size, consume_token, consume_tokens, rollback, reset, is_accepting, is_stopped, validate_tokens, compute_ff_tokens}, slice_from_ptr_or_empty and LlgMatcher::{wrap, clear_mask, mask_elts} cut verbatim from /repo's current ffi.rs onto a local copy of LlgMatcher whose Matcher is a stub (call log + symbolic answers); caller buffers are allocated with exactly the declared length. Decided: the engine receives exactly the caller's tokens (null pointer with n = 0 included) and the caller receives exactly the engine's verdict (status code, validation count clipped to i32, the first min(available, output_len) fast-forward tokens and nothing beyond, the mask words when the declared length is the advertised one and a refusal without a write otherwise); the saved mask is dropped by every state change. Fast-forward counts and vocabulary sizes concrete per instance (memcpy with a symbolic count is mis-modelled by Kani 0.68)",
    "outside the claim: equality of the RUST results with the engine's state (that is C01/C12/C18), the LlgConstraint entry points other than the parallel mask copy, pointer lifetimes, llg_compute_mask's returned pointer",
]


def run():
    tm = Timer()
    out = E1Outcome()
    specs = pp.specs("ffi", "c17", "c17_fail")
    if tier() == "quick":
        keep = ("v31_d1", "v31_d2", "v32_d1", "v33_d3", "v64_d2", "v64_d4", "v31_d0_k1", "k17_2", "k17_3", "witness")
        specs = [s for s in specs if any(k in s["name"] for k in keep)]
    fspecs = pp.specs("ffim", "c17", "c17_fail")
    if tier() == "quick":
        fspecs = [s for s in fspecs if not any(k in s["name"] for k in ("tokens_n0", "ff_out1_n0", "ff_out2_n2", "mask_v33_d3", "mask_v31"))]
    specs += fspecs
    info = run_parser_groups("C17", "c17", ["ffi", "ffim"], specs, out, harness_timeout_s=600, mem_gb=40)
    cov = e1_coverage(out, [dict(harness=s["name"]) for s in specs[:8]],
                      ["parser/src/ffi_par.rs mask copy statements (source slice)", "parser/src/ffi.rs llg_matcher_compute_mask_into slice bounds, llg_commit_token range test (source slice)",
                       "toktrie::SimpleVob::{alloc_with_capacity, allow_token, as_slice, as_ptr, len}", "toktrie::StepResult::{sample, stop, is_stop}",
                       "parser/src/ffi.rs llg_matcher_* entry points + LlgMatcher::{wrap, clear_mask, mask_elts} (whole-function slices)"],
                      dict(vocab_sizes=[5, 31, 32, 33, 63, 64], dest_words="0..4", kinds=["sample", "stop", "error"]), dict(tier=tier(), stubs=[], **info))
    return finish("C17", out, tm, "model_checking", cov, ASSUMPTIONS)
