"""E1 harness plans over the toktrie crate (K16.*, C02 trie layer, K13.1/K13.2, K19.3)."""
import os

from . import e1, vocab
from .common import VERIF, seed, tier, log

SVOB_MOD = "svob::verif_kani::"
TREE_MOD = "toktree::verif_kani::"

SVOB_QUICK = [
    "k16_1_set_w2", "k16_1_allow_disallow_w1", "k16_1_allow_unchecked_w1", "k16_1_allow_unchecked_w2",
    "k16_1_allow_range_w1", "k16_1_allow_range_w2", "k16_1_allow_range_w3", "k16_1_negated_w1", "k16_1_negated_w2",
    "k16_1_set_all_w2", "k16_1_binops_w2", "k16_1_or_shorter_w2_1", "k16_1_or_shorter_w3_2", "k16_1_preds_w2", "k16_1_first_bit_w2",
    "k16_1_num_set_w1", "k16_1_iter_step_w2", "k16_1_iter_entries_w2_63", "k16_1_iter_all_w2_40", "k16_1_trim_w3", "k16_1_write_to_w2",
    "k16_1_alloc_w2", "k16_1_alloc_cap_w1", "k16_1_alloc_cap_w2", "k16_1_resize_w1_2", "k16_1_from_slice",
]
SVOB_ALL = [
    "k16_1_set_w1", "k16_1_set_w2", "k16_1_set_w3", "k16_1_allow_disallow_w1", "k16_1_allow_disallow_w3",
    "k16_1_allow_unchecked_w1", "k16_1_allow_unchecked_w2", "k16_1_allow_unchecked_w3",
    "k16_1_allow_range_w1", "k16_1_allow_range_w2", "k16_1_allow_range_w3",
    "k16_1_negated_w1", "k16_1_negated_w2", "k16_1_negated_w3", "k16_1_set_all_w1", "k16_1_set_all_w2", "k16_1_set_all_w3",
    "k16_1_binops_w1", "k16_1_binops_w2", "k16_1_binops_w3",
    "k16_1_or_shorter_w2_0", "k16_1_or_shorter_w2_1", "k16_1_or_shorter_w3_1", "k16_1_or_shorter_w3_2",
    "k16_1_preds_w1", "k16_1_preds_w2", "k16_1_preds_w3", "k16_1_first_bit_w1", "k16_1_first_bit_w2", "k16_1_first_bit_w3",
    "k16_1_num_set_w1", "k16_1_num_set_w2", "k16_1_num_set_w3", "k16_1_iter_step_w1", "k16_1_iter_step_w2", "k16_1_iter_step_w3",
    "k16_1_iter_entries_w1_32", "k16_1_iter_entries_w1_31", "k16_1_iter_entries_w1_1", "k16_1_iter_entries_w2_33", "k16_1_iter_entries_w2_63", "k16_1_iter_entries_w2_64", "k16_1_iter_entries_w3_65", "k16_1_iter_entries_w3_96", "k16_1_iter_entries_w3_95",
    "k16_1_trim_w1", "k16_1_trim_w2", "k16_1_trim_w3",
    "k16_1_write_to_w1", "k16_1_write_to_w2", "k16_1_write_to_w3", "k16_1_alloc_w1", "k16_1_alloc_w2", "k16_1_alloc_w3",
    "k16_1_alloc_cap_w1", "k16_1_alloc_cap_w2", "k16_1_alloc_cap_w3", "k16_1_alloc_ones_w1", "k16_1_alloc_ones_w2",
    "k16_1_iter_unset_w1_31", "k16_1_iter_unset_w2_64", "k16_1_iter_unset_w2_40", "k16_1_iter_unset_w3_95", "k16_1_iter_all_w1_31", "k16_1_iter_all_w2_64", "k16_1_iter_all_w2_40", "k16_1_iter_all_w3_95",
    "k16_1_resize_w1_2", "k16_1_resize_w2_2", "k16_1_resize_w2_3", "k16_1_resize_w1_3", "k16_1_from_slice",
]


def svob_specs(t):
    names = SVOB_QUICK if t == "quick" else SVOB_ALL
    specs = [dict(name=SVOB_MOD + n, expect="pass", family="K16.1") for n in names]
    specs.append(dict(name=SVOB_MOD + "k16_1_witness_must_fail", expect="fail", family="K16.1"))
    return specs


class Inst:
    """Generated harness instances over dumped tables."""

    def __init__(self):
        self.src = []
        self.specs = []

    def add(self, name, unwind, body, family, expect="pass", note=None, stub_format=False):
        st = "#[kani::stub(alloc::fmt::format, stub_format)]\n" if stub_format else ""
        self.src.append("#[kani::proof]\n%s#[kani::unwind(%d)]\nfn %s() {\n    %s\n}\n" % (st, unwind, name, body))
        self.specs.append(dict(name=TREE_MOD + name, expect=expect, family=family, note=note))


def _nn(d):
    return len(d["nodes"])


def plan_instances(fams, dumped, want, t):
    """want: set of harness families to generate: walk, hasext, c02, roundtrip, greedy, toklen, chop"""
    inst = Inst()
    by = {f["name"]: (f, d) for f, d in zip(fams, dumped)}
    main = [f for f in fams if not f.get("is_sb")]
    quick = t == "quick"
    Q_WALK = {"chain": [(2, 0)], "dups": [(2, 0), (2, 1)], "prefix3": [(2, 0), (2, 1)], "marker": [(2, 0)], "rnd0": [(2, 0)], "tiny": [(3, 0), (2, 2)], "sparse": [(2, 1), (2, 2)]}
    Q_WALKF = {"dups", "prefix3"}
    Q_HASEXT = {"chain": [0, 1], "prefix3": [0, 1], "tiny": [2], "sparse": [2]}
    Q_C02 = {"dups", "utf8", "tiny"}
    Q_RT = {"dups", "marker", "fanout"}
    Q_TOKLEN = {"dups", "marker"}
    for f in main:
        n = f["name"]
        d = by[n][1]
        V = len(f["words"])
        C = len(f["alpha"])
        nn = _nn(d["base"])
        maxlen = max(len(w) for w in f["words"])
        U = max(nn, V, maxlen, C) + 2
        up = n.upper()
        if "walk" in want:
            if quick:
                variants = Q_WALK.get(n, [])
            else:
                variants = [(2, 0), (2, 1), (2, 2)]
                if C <= 3:
                    variants += [(3, 0), (3, 1)]
            for (S, L) in variants:
                inst.add("k16_3_walk_%s_s%d_l%d" % (n, S, L), U, "h_walk::<%d, %d, %d>(&trie_%s(), &W_%s, A_%s);" % (S, C, L, n, up, up), "K16.3")
            # filtered tries behave like tries built from the filtered vocabulary
            if "filtered" in d and ((not quick) or n in Q_WALKF):
                nnf = _nn(d["filtered"])
                Uf = max(nnf, V, maxlen, C) + 2
                inst.add("k16_3_walkf_%s_s2_l0" % n, Uf, "h_walk::<2, %d, 0>(&trie_%s_f(), &W_%s_F, A_%s);" % (C, n, up, up), "K16.3f")
                if not quick:
                    inst.add("k16_3_walkf_%s_s2_l1" % n, Uf, "h_walk::<2, %d, 1>(&trie_%s_f(), &W_%s_F, A_%s);" % (C, n, up, up), "K16.3f")
        if "hasext" in want:
            for L in (Q_HASEXT.get(n, []) if quick else [0, 1, 2]):
                inst.add("k16_3_hasext_%s_s2_l%d" % (n, L), U, "h_has_ext::<2, %d, %d>(&trie_%s(), &W_%s, A_%s);" % (C, L, n, up, up), "K16.3h")
        if "c02" in want and ((not quick) or n in Q_C02):
            sb = "sb_" + n
            Uc = max(U, maxlen + 2)
            for S in ([2] if (quick or C > 3) else [2, 3]):
                inst.add("c02_bytes_%s_s%d" % (n, S), Uc, "h_c02::<%d, %d>(&trie_%s(), &W_%s, &trie_%s(), &W_%s, A_%s);" % (S, C, n, up, sb, sb.upper(), up), "C02")
        if "roundtrip" in want and ((not quick) or n in Q_RT):
            inst.add("k16_4_roundtrip_%s" % n, U, "h_token_roundtrip(&trie_%s(), &W_%s);" % (n, up), "K16.4")
            for L in ([2] if quick else [1, 2, 3]):
                inst.add("k16_4_tokenid_%s_l%d" % (n, L), U, "h_token_id_any::<%d, %d>(&trie_%s(), &W_%s, A_%s);" % (C, L, n, up, up), "K16.4")
            if "filtered" in d and not quick:
                inst.add("k16_4_roundtripf_%s" % n, U, "h_token_roundtrip(&trie_%s_f(), &W_%s_F);" % (n, up), "K16.4f")
                inst.add("k16_4_tokenidf_%s_l2" % n, U, "h_token_id_any::<%d, 2>(&trie_%s_f(), &W_%s_F, A_%s);" % (C, n, up, up), "K16.4f")
        if "greedy_experimental" in want and f.get("byte_complete") and n == "tiny":
            for L in ((2,) if quick else (2, 3)):
                inst.add("k16_5_greedy_%s_l%d" % (n, L), max(U, L + 2), "h_greedy::<%d, %d>(&trie_%s(), &W_%s, A_%s);" % (C, L, n, up, up), "K16.5")
        if "toklen" in want and ((not quick) or n in Q_TOKLEN):
            inst.add("k16_6_toklen_%s" % n, max(12, V + 2), "h_token_len(&trie_%s(), &W_%s);" % (n, up), "K16.6")
        if "chop_experimental" in want and f.get("byte_complete") and n == "tiny":
            inst.add("k13_1_chop_%s_s2_n1" % n, max(U, 8), "h_chop::<2, %d, 1>(&trie_%s(), &W_%s, A_%s);" % (C, n, up, up), "K13.1", stub_format=True)
            if not quick:
                inst.add("k13_1_chop_%s_s2_n2" % n, max(U, 8), "h_chop::<2, %d, 2>(&trie_%s(), &W_%s, A_%s);" % (C, n, up, up), "K13.1", stub_format=True)
    inst.specs.append(dict(name=TREE_MOD + "k16_2_node_packing", expect="pass", family="K16.2"))
    inst.specs.append(dict(name=TREE_MOD + "k16_2_witness_must_fail", expect="fail", family="K16.2"))
    return inst


def prepare_overlay(tag, want, with_svob=True):
    """Returns (overlay, fams, dumped, inst) or raises RuntimeError(inconclusive reason)."""
    t = tier()
    ov = e1.Overlay(tag)
    fams = vocab.families(seed(), 2 if t == "quick" else 6, small=(t == "quick"))
    dumped, err = vocab.dump_tables(ov, fams)
    if dumped is None:
        ov.cleanup()
        raise RuntimeError("native build of the table dump failed:\n" + err)
    inst = plan_instances(fams, dumped, want, t)
    hdir = os.path.join(VERIF, "kani/toktrie")
    if with_svob:
        ov.inject("toktrie/src/svob.rs", os.path.join(hdir, "svob_h.rs"), "verif_kani")
    ov.inject("toktrie/src/toktree.rs", os.path.join(hdir, "toktree_h.rs"), "verif_kani")
    ov.write("toktrie/src/verif_tables.rs", vocab.gen_tables_rs(fams, dumped))
    ov.write("toktrie/src/verif_instances.rs", "// GENERATED harness instances\n" + "\n".join(inst.src))
    return ov, fams, dumped, inst


class ChopSliceError(Exception):
    pass


def slice_chop():
    """statements of TokTrie::chop_tokens between `let chop_bytes = suff.len();` and `unreachable!();` (inclusive)"""
    from .common import REPO
    src = open(os.path.join(REPO, "toktrie/src/toktree.rs")).read().splitlines()
    st = [i for i, l in enumerate(src) if l.strip() == "let chop_bytes = suff.len();"]
    if len(st) != 1:
        raise ChopSliceError("anchor `let chop_bytes = suff.len();` not found exactly once in toktree.rs")
    out = []
    for i in range(st[0], min(len(src), st[0] + 25)):
        out.append(src[i])
        if src[i].strip() == "unreachable!();":
            return "{\n" + "\n".join(out) + "\n}\n"
    raise ChopSliceError("end anchor `unreachable!();` not found after the start anchor in toktree.rs")


CHOP_SPECS = [dict(name="chop_h::k13_1_chop_account_n1", expect="pass", family="K13.1"), dict(name="chop_h::k13_1_chop_account_n2", expect="pass", family="K13.1"),
              dict(name="chop_h::k13_1_chop_account_n4", expect="pass", family="K13.1"), dict(name="chop_h::k13_1_chop_witness_must_fail", expect="fail", family="K13.1")]


def inject_chop(ov):
    """adds the chop accounting harness as a top-level module of the toktrie overlay (it needs no private items)"""
    from . import e1
    body = e1.expand_inst(open(os.path.join(VERIF, "kani/toktrie/chop_h.rs")).read())
    ov.write("toktrie/src/chop_h.rs", body)
    ov.write("toktrie/src/verif_chop_slice.rs", slice_chop())
    with open(ov.path("toktrie/src/lib.rs"), "a") as f:
        f.write("\n#[cfg(kani)]\nmod chop_h;\n")
