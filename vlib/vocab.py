"""Vocabulary families for the trie harnesses, table dump (real builder, native) and Rust codegen."""
import json
import os
import random
import subprocess
import zlib

from . import e1
from .common import VERIF, log

A, B, C_, D = 0x61, 0x62, 0x63, 0x64


def _w(s):
    if isinstance(s, (bytes, bytearray)):
        return list(s)
    return list(s.encode("latin-1"))


def fixed_families():
    fams = []
    # chain of depth 6 + a sibling: exercises num_parents up to 6 and pop counts after deep leaves
    fams.append(dict(name="chain", words=[_w(x) for x in ["a", "ab", "abc", "abcd", "abcde", "abcdef", "b", "ba"]], alpha=[A, B, C_, D, 0x65, 0x66]))
    # duplicates + empty entries + prefix tokens
    fams.append(dict(name="dups", words=[_w(x) for x in ["a", "b", "ab", "ab", "", "ba", "a", "abb", ""]], alpha=[A, B]))
    # a token that is a prefix of three others, 3-way fan-out at two levels
    fams.append(dict(name="prefix3", words=[_w(x) for x in ["a", "ab", "ac", "aa", "b", "c", "abc", "aab", "ca"]], alpha=[A, B, C_]))
    # special-marker tokens, bare marker, empty
    fams.append(dict(name="marker", words=[_w("a"), _w("b"), [0xFF] + _w("<x>"), [0xFF], _w("ab"), [], _w("<x>"), [0xFF] + _w("[1]"), _w("<")],
                     alpha=[A, B, 0xFF, 0x3C]))
    # two-byte UTF-8 character split across tokens
    fams.append(dict(name="utf8", words=[[0xC3], [0xA9], [0xC3, 0xA9], _w("a"), _w("a") + [0xC3], [0xA9] + _w("a"), _w("aa"), [0xC3, 0xA9, 0xC3]],
                     alpha=[A, 0xC3, 0xA9]))
    # 4-way fan-out at root and below, only leaves at depth 2 carry tokens on one branch (interior nodes without token)
    fams.append(dict(name="fanout", words=[_w(x) for x in ["a", "b", "c", "d", "aa", "ab", "ac", "ad", "dca", "dcb", "dd"]], alpha=[A, B, C_, D]))
    # tokens whose proper prefixes are NOT tokens (interior trie nodes without a token id on the way): a start prefix can leave the
    # trie right after such a node
    fams.append(dict(name="sparse", words=[_w(x) for x in ["abc", "abd", "b", "ca", "cab", "d"]], alpha=[A, B, C_, D]))
    # tiny byte-complete vocabulary for the functions that build vectors / chase node pointers (greedy, chop)
    fams.append(dict(name="tiny", words=[_w(x) for x in ["a", "b", "ab", "bab"]], alpha=[A, B]))
    return fams


def random_family(rng, idx, small=False):
    nalpha = rng.choice([2, 3, 3])
    alpha = [A, B, C_][:nalpha]
    n = rng.randint(6, 8) if small else rng.randint(8, 13)
    words = [[a] for a in alpha]  # byte-complete
    while len(words) < n:
        r = rng.random()
        if r < 0.08:
            words.append([])
        elif r < 0.2 and len(words) > 0:
            words.append(list(rng.choice(words)))
        elif r < 0.55 and len(words) > 0:
            base = list(rng.choice(words))
            if len(base) < 4:
                words.append(base + [rng.choice(alpha)])
            else:
                words.append(base[:2])
        else:
            l = rng.randint(1, 4)
            words.append([rng.choice(alpha) for _ in range(l)])
    order = list(range(len(words)))
    rng.shuffle(order)
    words = [words[i] for i in order]
    return dict(name="rnd%d" % idx, words=words, alpha=alpha)


def families(seed, n_random, small=False):
    fams = fixed_families()
    rng = random.Random(1000 + seed)
    for i in range(n_random):
        fams.append(random_family(rng, i, small))
    for f in fams:
        rr = random.Random((zlib.crc32(f["name"].encode()) & 0xffff) ^ seed)
        f["eos"] = len(f["words"]) - 1
        # filter mask: keep roughly 2/3, always drop at least one non-empty and keep at least two
        mask = [rr.random() < 0.66 for _ in f["words"]]
        ne = [i for i, w in enumerate(f["words"]) if w]
        mask[ne[0]] = False
        mask[ne[1]] = True
        mask[ne[-1]] = True
        f["filter"] = mask
        f["byte_complete"] = all([a] in f["words"] for a in f["alpha"])
    # single-byte vocabularies (one per alphabet) for C02, built by the real builder as well
    sbs = []
    for f in fams:
        sbs.append(dict(name="sb_" + f["name"], words=[[a] for a in f["alpha"]], alpha=list(f["alpha"]), eos=len(f["alpha"]) - 1,
                        byte_complete=True, is_sb=True))
    return fams + sbs


def dump_tables(overlay, fams):
    """Run the REAL builder natively on the overlay copy and return its tables."""
    overlay.inject("toktrie/src/toktree.rs", os.path.join(VERIF, "kani/toktrie/toktree_dump.rs"), "verif_dump", cfg="verif_dump")
    ex = overlay.path("toktrie/examples")
    os.makedirs(ex, exist_ok=True)
    with open(os.path.join(VERIF, "kani/toktrie/dump_example.rs")) as f:
        overlay.write("toktrie/examples/verif_dump.rs", f.read())
    vj = overlay.write("verif_vocab.json", json.dumps(fams))
    p = e1.native_run(overlay, ["run", "-q", "--offline", "-p", "toktrie", "--example", "verif_dump", "--", vj], cfgs=["verif_dump"])
    # the example needs cfg(verif_dump): remove it again so later builds of the overlay (playback tests) do not see it
    try:
        os.remove(overlay.path("toktrie/examples/verif_dump.rs"))
    except OSError:
        pass
    if p.returncode != 0:
        return None, (p.stdout + p.stderr)[-4000:]
    return json.loads(p.stdout), ""


def _bytes_lit(bs):
    return "&[" + ",".join(str(b) for b in bs) + "]"


def _trie_fn(name, t):
    s = "pub fn %s() -> TokTrie {\n    TokTrie {\n" % name
    s += "        info: TokRxInfo::new(%d, %d),\n" % (t["vocab_size"], t["tok_eos"])
    s += "        token_offsets: vec![%s],\n" % ",".join("TokDesc{len:%d,off:%d}" % (l, o) for l, o in t["token_offsets"])
    s += "        token_data: vec![%s],\n" % ",".join(str(b) for b in t["token_data"]) if t["token_data"] else "        token_data: Vec::new(),\n"
    s += "        nodes: vec![%s],\n" % ",".join("TrieNode{bits:%d,bits2:%d}" % (a, b) for a, b in t["nodes"])
    s += "        max_token_len: %d,\n" % t["max_token_len"]
    s += "        eos_tokens: vec![%s],\n" % ",".join(str(b) for b in t["eos_tokens"])
    s += "        sorted_vocab: vec![%s],\n" % ",".join(str(b) for b in t["sorted_vocab"])
    s += "    }\n}\n"
    return s


def gen_tables_rs(fams, dumped):
    out = ["// GENERATED on this run from the real TokTrie::from / filter (native) — do not edit\n"]
    for f, d in zip(fams, dumped):
        n = f["name"]
        assert d["name"] == n
        out.append(_trie_fn("trie_%s" % n, d["base"]))
        out.append("pub static W_%s: [&[u8]; %d] = [%s];\n" % (n.upper(), len(f["words"]), ",".join(_bytes_lit(w) for w in f["words"])))
        out.append("pub const A_%s: [u8; %d] = [%s];\n" % (n.upper(), len(f["alpha"]), ",".join(str(a) for a in f["alpha"])))
        if "filtered" in d:
            out.append(_trie_fn("trie_%s_f" % n, d["filtered"]))
            fw = [w if m else [] for w, m in zip(f["words"], f["filter"])]
            out.append("pub static W_%s_F: [&[u8]; %d] = [%s];\n" % (n.upper(), len(fw), ",".join(_bytes_lit(w) for w in fw)))
    # single-byte vocabulary per alphabet for C02 (built by the real builder too: they are part of fams as sb_*)
    return "\n".join(out)


def single_byte_family(alpha, name):
    return dict(name=name, words=[[a] for a in alpha], alpha=list(alpha), eos=len(alpha) - 1)
