"""C03 — allowed tokens never lead into a dead end (compile level). E2: trap-set SAT query on every exported lexer automaton and
unproductive-symbol SAT query on every compiled grammar."""
import json
import random
import time

import z3

from . import e2, gram, jsgen, larkgen, p_c04, p_c08, rxref
from .automaton import Aut, shortest_accepted
from .common import (EXIT_INCONCLUSIVE, EXIT_OK, EXIT_VIOLATION, Timer, log, match_known, save_replay, seed, tier, write_evidence)

FORMATS = ["date-time", "time", "date", "duration", "email", "hostname", "ipv4", "ipv6", "uuid"]


def string_schemas(rng, n):
    out = []
    pats = ["^a+$", "^[a-c]{2,4}$", "^(ab|c)*$", "^x", "b$", "^[0-9]{3}-[0-9]{2}$", "^\\\\d+$", "^(foo|bar|baz)$", "^[^a]*$"]
    for _ in range(n):
        s = {"type": "string"}
        r = rng.random()
        if r < 0.35:
            s["pattern"] = rng.choice(pats)
        elif r < 0.55:
            s["format"] = rng.choice(FORMATS)
        if rng.random() < 0.7:
            lo = rng.randint(0, 6)
            s["minLength"] = lo
            if rng.random() < 0.8:
                s["maxLength"] = lo + rng.randint(0, 12)
        elif rng.random() < 0.5:
            s["maxLength"] = rng.randint(0, 12)
        out.append(s)
    return out


def tricky_schemas(rng, n):
    """schemas with unsatisfiable pieces in optional positions: either rejected at compile time or compiled without dead ends"""
    unsat = [
        {"type": "number", "exclusiveMinimum": 0.3, "maximum": 0.35, "multipleOf": 0.1},
        {"type": "integer", "minimum": 0.3, "maximum": 1.2, "multipleOf": 0.3},
        {"type": "number", "minimum": 1.1, "maximum": 1.9, "multipleOf": 1},
        {"type": "integer", "exclusiveMinimum": 4, "exclusiveMaximum": 6, "multipleOf": 3},
        {"type": "integer", "minimum": 3, "maximum": 2},
        {"type": "string", "minLength": 4, "maxLength": 2},
        {"type": "string", "pattern": "^a$", "minLength": 3},
        {"allOf": [{"type": "string"}, {"type": "integer"}]},
        {"type": "number", "exclusiveMinimum": 1, "exclusiveMaximum": 1},
        {"type": "integer", "minimum": 1, "maximum": 2, "multipleOf": 5},
        {"enum": []},
        {"type": "array", "items": False, "minItems": 1},
        {"type": "string", "format": "date", "maxLength": 3},
        {"type": "string", "pattern": "^b+$", "maxLength": 0},
    ]
    ok = [{"type": "null"}, {"type": "boolean"}, {"const": 1}, {"type": "integer", "minimum": 0, "maximum": 9}, {"type": "string", "maxLength": 2}]
    out = []
    for _ in range(n):
        u = rng.choice(unsat)
        form = rng.random()
        if form < 0.3:
            s = {"type": "object", "properties": {"a": rng.choice(ok), "b": u}, "required": ["a"], "additionalProperties": False}
        elif form < 0.5:
            s = {"anyOf": [u, rng.choice(ok)]}
        elif form < 0.65:
            s = {"type": "array", "items": u, "maxItems": 2}
        elif form < 0.8:
            s = {"type": "array", "prefixItems": [rng.choice(ok)], "items": u}
        elif form < 0.9:
            s = {"type": "object", "properties": {"a": rng.choice(ok)}, "additionalProperties": u}
        else:
            s = {"type": "object", "properties": {"a": {"anyOf": [u, rng.choice(unsat)]}, "b": rng.choice(ok)}, "required": ["b"], "additionalProperties": False}
        if rng.random() < 0.35:
            # the same piece reached through a bare $ref (definitions are compiled after their users)
            s = json.loads(json.dumps(s).replace(json.dumps(u), '{"$ref": "#/$defs/never"}', 1))
            s["$defs"] = {"never": u}
        out.append(s)
    for u in (False, {"type": "integer", "minimum": 3, "maximum": 2}, {"type": "string", "minLength": 4, "maxLength": 2}):
        r = {"$ref": "#/$defs/never"}
        out.append({"type": "object", "properties": {"a": r, "b": {"type": "null"}}, "required": ["b"], "additionalProperties": False, "$defs": {"never": u}})
        out.append({"type": "array", "prefixItems": [{"const": 1}, r], "items": False, "$defs": {"never": u}})
        out.append({"type": "object", "properties": {"a": r}, "required": ["a"], "additionalProperties": False, "$defs": {"never": u}})
        out.append({"anyOf": [r, {"type": "null"}], "$defs": {"never": u}})
    # pattern properties whose key language is used up by declared properties
    for pat, names in [("^a$", ["a"]), ("^(a|b)$", ["a", "b"]), ("^a", ["a"]), ("^[ab]$", ["a"])]:
        out.append({"type": "object", "properties": {n: {"type": "integer", "minimum": 0, "maximum": 9} for n in names},
                    "patternProperties": {pat: {"type": "boolean"}}, "additionalProperties": False})
    return out


def gen_cases(tr, sd):
    rng = random.Random(3000 + sd)
    cases = []
    q = tr == "quick"
    for c in p_c04.gen_cases("quick" if q else "thorough", sd)[: (60 if q else 400)]:
        # the property presupposes a productive grammar: a terminal whose language is empty by the user's own construction
        # (e.g. an intersection of disjoint regexes) is outside it -- decided with the independent reference
        try:
            d = rxref.compile_dfa(c["node"])
        except ValueError:
            continue
        if d.init not in d.coreach():
            continue
        cases.append(dict(kind=c["kind"], text=c["text"], family="regex"))
    for t in p_c08.gen_tuples("quick", sd)[:: (6 if q else 1)]:
        cases.append(dict(kind="json", schema=p_c08.make_schema(t), family="number"))
    for s in string_schemas(rng, 40 if q else 400):
        cases.append(dict(kind="json", schema=s, family="string"))
    for s in tricky_schemas(rng, 50 if q else 500):
        cases.append(dict(kind="json", schema=s, family="json-unsat-piece"))
    for _ in range(40 if q else 400):
        cases.append(dict(kind="json", schema=jsgen.gen_case(rng), family="json-structure"))
    for _ in range(30 if q else 300):
        cases.append(dict(kind="lark", text=larkgen.gen_grammar(rng, attrs=False)["text"], family="lark"))
    return cases


def trap_query(aut):
    """sat <=> a reachable, non-dead region exists from which no accepting state can be reached (exact for the automaton)"""
    d = [None] + [z3.Bool("d%d" % q) for q in range(1, aut.n)]
    s = z3.Solver()
    s.add(z3.Or(*d[1:]) if aut.n > 1 else z3.BoolVal(False))
    for q in range(1, aut.n):
        if aut.acc[q] or aut.lazy[q] or aut.special[q]:
            s.add(z3.Not(d[q]))
            continue
        for lo, hi, t in aut.rows[q]:
            if t != 0:
                s.add(z3.Implies(d[q], d[t]))
    r = s.check()
    if r == z3.sat:
        m = s.model()
        return [q for q in range(1, aut.n) if z3.is_true(m.eval(d[q], model_completion=True))]
    return None if r == z3.unsat else "unknown"


def path_to(aut, target):
    from collections import deque
    dq = deque([(aut.init, [])])
    seen = {aut.init}
    while dq:
        q, p = dq.popleft()
        if q == target:
            return p
        for lo, hi, t in aut.rows[q]:
            if t != 0 and t not in seen:
                seen.add(t)
                b = lo
                for c in range(lo, hi + 1):
                    if 0x21 <= c <= 0x7e:
                        b = c
                        break
                dq.append((t, p + [b]))
    return None


def unproductive_query(cg, empty_lexemes):
    """sat <=> some reachable symbol of the compiled grammar is unproductive"""
    g = cg.trimmed()
    nts = sorted(g.nonterminals())
    u = {a: z3.Bool("u_" + a) for a in nts}
    by = {}
    for l, r in g.rules:
        by.setdefault(l, []).append(r)
    s = z3.Solver()
    s.add(z3.Or(*u.values()))
    for a in nts:
        for r in by.get(a, []):
            bad = [u[v] for k, v in r if k == "N"] + [z3.BoolVal(True) for k, v in r if k == "T" and v in empty_lexemes]
            s.add(z3.Implies(u[a], z3.Or(*bad) if bad else z3.BoolVal(False)))
        if a not in by:
            pass  # symbol without rules: trivially unproductive, u may be true
    r = s.check()
    if r == z3.sat:
        m = s.model()
        return [a for a in nts if z3.is_true(m.eval(u[a], model_completion=True))]
    return None if r == z3.unsat else "unknown"


def dead_rule_query(cg, empty_lexemes):
    """sat <=> some rule of a reachable symbol has, after a prefix that can derive a NON-EMPTY terminal string, an element that can never
    be completed (an unproductive symbol or a lexeme whose automaton is empty): tokens are allowed into the prefix, nothing can follow.
    Returns (rule index, position) or None / "unknown"."""
    g = cg.trimmed()
    ml = g.minlen()
    INF = 10 ** 9
    prod = set(a for a, v in ml.items() if v < INF)
    # can derive a non-empty string: some derivation with a terminal of a non-empty lexeme
    nonempty = set()
    changed = True
    while changed:
        changed = False
        for l, r in g.rules:
            if l in nonempty:
                continue
            if all((k == "T" and v not in empty_lexemes) or (k == "N" and v in prod) for k, v in r) and \
                    any((k == "T") or (k == "N" and v in nonempty) for k, v in r):
                nonempty.add(l)
                changed = True
    sel = {}
    s = z3.Solver()
    for i, (l, r) in enumerate(g.rules):
        for j, (k, v) in enumerate(r):
            dead = (k == "T" and v in empty_lexemes) or (k == "N" and v not in prod)
            if not dead:
                continue
            pre = r[:j]
            pre_ok = all((kk == "T" and vv not in empty_lexemes) or (kk == "N" and vv in prod) for kk, vv in pre)
            pre_nonempty = any(kk == "T" or (kk == "N" and vv in nonempty) for kk, vv in pre)
            if pre_ok and pre_nonempty:
                sel[(i, j)] = z3.Bool("dead_%d_%d" % (i, j))
    if not sel:
        return None, g
    s.add(z3.Or(*sel.values()))
    r = s.check()
    if r == z3.sat:
        m = s.model()
        for key, b in sel.items():
            if z3.is_true(m.eval(b, model_completion=True)):
                return key, g
    return (None if r == z3.unsat else "unknown"), g


def witness_prefix(g, rule_idx, pos, empty_lexemes):
    """terminal sequence: a shortest sentence prefix that reaches rule `rule_idx` and runs through its first `pos` elements"""
    INF = 10 ** 9
    short = {}
    changed = True
    while changed:
        changed = False
        for l, r in g.rules:
            parts = []
            ok = True
            for k, v in r:
                if k == "T":
                    if v in empty_lexemes:
                        ok = False
                        break
                    parts.append(v)
                elif v in short:
                    parts += short[v]
                else:
                    ok = False
                    break
            if ok and (l not in short or len(parts) < len(short[l])):
                short[l] = parts
                changed = True

    def sent(syms):
        out = []
        for k, v in syms:
            if k == "T":
                out.append(v)
            elif v in short:
                out += short[v]
            else:
                return None
        return out
    ctx = {g.start: []}
    changed = True
    while changed:
        changed = False
        for l, r in g.rules:
            if l not in ctx:
                continue
            for j, (k, v) in enumerate(r):
                if k != "N":
                    continue
                pre = sent(r[:j])
                if pre is None:
                    break
                cand = ctx[l] + pre
                if v not in ctx or len(cand) < len(ctx[v]):
                    ctx[v] = cand
                    changed = True
    l, r = g.rules[rule_idx]
    if l not in ctx:
        return None
    pre = sent(r[:pos])
    if pre is None:
        return None
    return ctx[l] + pre


def _work(args):
    idx, res = args
    out = dict(idx=idx, status="ok", queries=0, solver_s=0.0, traps=[], unprod=None, n_aut=0, n_states=0, hints_bad=[])
    if not res.get("ok"):
        out["status"] = "compile_error"
        out["note"] = str(res.get("error"))[:200]
        return out
    auts = res.get("automata") or []
    empty = set()
    for k, a in enumerate(auts):
        if "error" in a:
            out["status"] = "partial"
            continue
        au = Aut(a)
        if au.init == 0:
            empty.add(k)
            continue
        out["n_aut"] += 1
        out["n_states"] += au.n
        t0 = time.time()
        tr = trap_query(au)
        out["solver_s"] += time.time() - t0
        out["queries"] += 1
        if tr == "unknown":
            out["status"] = "unknown"
        elif tr:
            p = path_to(au, tr[0])
            out["traps"].append(dict(lexeme=k, trap_states=tr[:5], path=p))
    cg = gram.parse_grammar_text(res.get("cgrammar") or "", res.get("cgrammar_start"))
    if cg.rules:
        t0 = time.time()
        up = unproductive_query(cg, empty)
        out["solver_s"] += time.time() - t0
        out["queries"] += 1
        if up == "unknown":
            out["status"] = "unknown"
        elif up:
            out["unprod"] = up[:6]
        t0 = time.time()
        dr, g = dead_rule_query(cg, empty)
        out["solver_s"] += time.time() - t0
        out["queries"] += 1
        if dr == "unknown":
            out["status"] = "unknown"
        elif dr:
            terms = witness_prefix(g, dr[0], dr[1], empty)
            bs = None
            if terms is not None:
                bs = []
                for t in terms:
                    smp = shortest_accepted(Aut(auts[t]), t) if t < len(auts) and "error" not in auts[t] else None
                    if smp is None:
                        bs = None
                        break
                    bs += list(smp)
            out["dead_rule"] = dict(rule="%s -> %s" % (g.rules[dr[0]][0], g.rules[dr[0]][1]), position=dr[1], prefix_terminals=terms, prefix_bytes=bs)
    return out


def run():
    from concurrent.futures import ProcessPoolExecutor
    tm = Timer()
    tr, sd, prop = tier(), seed(), "C03"
    cases = gen_cases(tr, sd)
    inconclusive = []
    try:
        jobs = []
        for c in cases:
            j = dict(op="compile", kind=c["kind"], want=["cgrammar", "lexemes", "automata"], max_states=3000)
            if c["kind"] == "json":
                j["schema"] = c["schema"]
            else:
                j["text"] = c["text"]
            jobs.append(j)
        results = e2.run_jobs(jobs)
    except RuntimeError as ex:
        write_evidence(prop, "translation_validation", dict(evaluations=1, distinct_nontrivial=0, samples=["exporter build failed"]), tm.s(), 0, [])
        print("INCONCLUSIVE property=%s: %s" % (prop, str(ex)[:500]))
        return EXIT_INCONCLUSIVE
    stats = dict(cases=len(cases), compiled=0, rejected=0, automata=0, states=0, queries=0, solver_s=0.0, by_family={})
    viol = []
    samples = []
    with ProcessPoolExecutor(max_workers=14) as ex:
        for o in ex.map(_work, [(i, results[i]) for i in range(len(cases))], chunksize=4):
            i = o["idx"]
            c = cases[i]
            fam = stats["by_family"].setdefault(c["family"], dict(cases=0, compiled=0, rejected=0))
            fam["cases"] += 1
            stats["queries"] += o["queries"]
            stats["solver_s"] += o["solver_s"]
            if o["status"] == "compile_error":
                stats["rejected"] += 1
                fam["rejected"] += 1
                continue
            if o["status"] == "unknown":
                inconclusive.append("solver unknown on case %d" % i)
            stats["compiled"] += 1
            fam["compiled"] += 1
            stats["automata"] += o["n_aut"]
            stats["states"] += o["n_states"]
            for t in o["traps"]:
                viol.append(("lexer-trap|%s" % c["family"], dict(property=prop, case=c, trap=t, note="reachable lexer state from which no lexeme can ever complete")))
            if o["unprod"]:
                viol.append(("unproductive-symbol|%s" % c["family"], dict(property=prop, case=c, symbols=o["unprod"], cgrammar=results[i].get("cgrammar"),
                                                                       note="a reachable symbol of the compiled grammar derives no terminal string")))
            if o.get("dead_rule"):
                viol.append(("dead-rule|%s" % c["family"], dict(property=prop, case=c, dead_rule=o["dead_rule"], cgrammar=results[i].get("cgrammar"),
                                                             note="a rule of the compiled grammar can be entered (non-empty prefix) but never completed")))
            if len(samples) < 12 and i % max(1, len(cases) // 11) == 0:
                samples.append(dict(family=c["family"], grammar=c.get("text") or c.get("schema"), automata=o["n_aut"], states=o["n_states"], verdict="no trap set, no unproductive symbol"))
    # vacuity twins: a synthetic automaton with a trap and a grammar with an unproductive symbol must be flagged
    twin_a = Aut({"n": 4, "init": 1, "states": [{"t": [], "acc": []}, {"t": [[97, 97, 2], [98, 98, 3]], "acc": []}, {"t": [], "acc": [0]}, {"t": [[98, 98, 3]], "acc": []}]})
    twin_g = gram.CFG([("S", [("T", 1)]), ("S", [("N", "X"), ("T", 1)]), ("X", [("N", "X"), ("T", 2)])], "S")
    twins_ok = bool(trap_query(twin_a)) and bool(unproductive_query(twin_g, set()))
    if not twins_ok:
        inconclusive.append("vacuity twins (synthetic trap / unproductive symbol) were not flagged: query encoding broken")
    # replay: drive the real Matcher into the trap and observe the dead end
    reported = 0
    seen = set()
    known_hits = []
    for key, payload in viol:
        if key in seen:
            continue
        seen.add(key)
        k = match_known(prop, key)
        if k:
            print("KNOWN-FINDING: property=%s %s (%s)" % (prop, k.get("what"), key))
            known_hits.append(key)
            continue
        c = payload["case"]
        confirmed = None
        if "trap" in payload and payload["trap"].get("path") is not None:
            j = dict(op="replay", kind=c["kind"], bytes=payload["trap"]["path"])
            if c["kind"] == "json":
                j["schema"] = c["schema"]
            else:
                j["text"] = c["text"]
            rr = e2.run_jobs([j])[0]
            payload["replay"] = {k2: rr.get(k2) for k2 in ("ok", "consumed", "all", "accepting", "stopped")}
            confirmed = bool(rr.get("ok") and rr.get("all") and not rr.get("accepting"))
        if "dead_rule" in payload:
            bs = payload["dead_rule"].get("prefix_bytes")
            if bs is None:
                inconclusive.append("dead rule for %s: no concrete prefix could be built" % key)
                continue
            j = dict(op="replay", kind=c["kind"], bytes=bs, final_mask=True)
            if c["kind"] == "json":
                j["schema"] = c["schema"]
            else:
                j["text"] = c["text"]
            rr = e2.run_jobs([j])[0]
            payload["replay"] = {k2: rr.get(k2) for k2 in ("ok", "consumed", "all", "accepting", "stopped", "final_mask_count", "final_mask_err", "stop_reason")}
            payload["prefix_text"] = bytes(bs).decode("utf-8", "replace")
            dead = bool(rr.get("ok") and rr.get("all") and not rr.get("accepting") and (rr.get("final_mask_count") == 0 or rr.get("final_mask_err")))
            if not dead:
                # ambiguity: another rule covers the same prefix -- not a dead end, not reported
                continue
            confirmed = True
        payload["key"] = key
        payload["confirmed_on_matcher"] = confirmed
        if confirmed is False:
            inconclusive.append("trap path for %s not confirmed on the real Matcher" % key)
            continue
        rp = save_replay(prop, "c03_%d" % reported, payload)
        print("VIOLATION property=%s replay=%s" % (prop, rp))
        log("  ", key, json.dumps(payload, default=str, ensure_ascii=False)[:500])
        reported += 1
    cov = dict(programs=stats["compiled"], disagreements_checked=len(viol), samples=samples or [dict(note="none")], tier=tr, cases=len(cases), compiled=stats["compiled"],
               rejected_at_compile_time=stats["rejected"], lexer_automata=stats["automata"], automaton_states=stats["states"], queries=stats["queries"], solver_s=round(stats["solver_s"], 2),
               by_family=stats["by_family"], vacuity_twins="synthetic trap + unproductive symbol flagged: %s" % twins_ok,
               functions_encoded=["earley/regexvec.rs transition_inner (is_non_empty_limited pruning) + relevance check at construction: their effect on the materialised automaton",
                                  "json/compiler.rs gen_json_string emptiness check, json/numeric.rs check_number_bounds, json/schema.rs unsatisfiable-schema propagation: their effect on the compiled grammar",
                                  "earley/grammar.rs CGrammar::from_grammar"],
               bounds=dict(max_automaton_states=3000, note="trap-set and productivity queries are exact for the exported tables (no length bound)"), known_findings_reported=known_hits,
               inconclusive=inconclusive[:20])
    assumptions = ["compile level: rows listing only scannable lexemes, lexer restriction to them, NoExtensionBias (run-time half) need the parser and are outside the claim",
                   "lexemes whose automaton exceeds 3000 states are skipped"]
    write_evidence(prop, "translation_validation", cov, tm.s(), reported, assumptions)
    if reported:
        return EXIT_VIOLATION
    if inconclusive:
        print("INCONCLUSIVE property=%s: %s" % (prop, inconclusive[0][:300]))
        return EXIT_INCONCLUSIVE
    print("OK property=%s tier=%s cases=%d compiled=%d automata=%d queries=%d (%.0fs)" % (prop, tr, len(cases), stats["compiled"], stats["automata"], stats["queries"], tm.s()))
    return EXIT_OK
