"""Context-free grammars as exported by the engine (Grammar::to_string / CGrammar Debug) or written as references:
parser of the text form, concrete CYK recogniser, and the two-sided (closure + ranked support) CYK encoding for z3."""
import re

import z3

PROP_TOKENS = ("CAPTURE", "STOP-CAPTURE=", "max_tokens=", "temp=")


class CFG:
    """rules: list of (lhs, [sym,...]); sym = ("T", id) | ("N", name). start: nonterminal name."""

    def __init__(self, rules, start, props=None):
        self.rules = [(l, list(r)) for l, r in rules]
        self.start = start
        self.props = props or {}       # symbol name -> list of property strings (CAPTURE, max_tokens=.., ...)
        self.conds = {}

    def nonterminals(self):
        s = {self.start}
        for l, r in self.rules:
            s.add(l)
            for k, v in r:
                if k == "N":
                    s.add(v)
        return s

    def terminals(self):
        s = set()
        for l, r in self.rules:
            for k, v in r:
                if k == "T":
                    s.add(v)
        return s

    def reachable(self):
        by = {}
        for l, r in self.rules:
            by.setdefault(l, []).append(r)
        seen = {self.start}
        st = [self.start]
        while st:
            a = st.pop()
            for r in by.get(a, []):
                for k, v in r:
                    if k == "N" and v not in seen:
                        seen.add(v)
                        st.append(v)
        return seen

    def trimmed(self):
        seen = self.reachable()
        return CFG([(l, r) for l, r in self.rules if l in seen], self.start, self.props)

    def binarized(self):
        out = []
        cnt = [0]
        for l, r in self.rules:
            cur = l
            rr = list(r)
            while len(rr) > 2:
                cnt[0] += 1
                nn = "_b%d_%s" % (cnt[0], l)
                out.append((cur, [rr[0], ("N", nn)]))
                cur = nn
                rr = rr[1:]
            out.append((cur, rr))
        return CFG(out, self.start, self.props)

    def minlen(self):
        INF = 10 ** 9
        ml = {a: INF for a in self.nonterminals()}
        changed = True
        while changed:
            changed = False
            for l, r in self.rules:
                tot = 0
                for k, v in r:
                    tot += 1 if k == "T" else ml.get(v, INF)
                    if tot >= INF:
                        tot = INF
                        break
                if tot < ml[l]:
                    ml[l] = tot
                    changed = True
        return ml

    def productive(self):
        ml = self.minlen()
        return set(a for a, v in ml.items() if v < 10 ** 9)


def parse_grammar_text(text, start_hint=None):
    """Parses Grammar::to_string / format!("{:?}", CGrammar). Returns CFG (conditions of parametric rules are kept in cfg.conds)."""
    rules = []
    props = {}
    conds = {}
    params = {}
    parametric = set()
    cur = None
    first = None
    for line in text.splitlines():
        if "⇦" not in line:
            continue
        left, right = line.split("⇦", 1)
        name = left.strip()
        if name:
            cur = name
        if cur is None:
            continue
        lhs = cur
        if lhs.endswith("::_"):
            lhs = lhs[:-3]
            parametric.add(lhs)
        if first is None:
            first = lhs
        # a condition may contain spaces ("ge(_, 0x2)"): cut it out before tokenising
        cond_txt = None
        if "%if" in right:
            right, rest = right.split("%if", 1)
            ptoks = rest.split()
            keep = []
            tailp = []
            for t_ in ptoks:
                if t_.startswith(PROP_TOKENS):
                    tailp.append(t_)
                else:
                    keep.append(t_)
            cond_txt = " ".join(keep)
            right = right + " " + " ".join(tailp)
        toks = right.split()
        rhs = []
        rparams = []
        cond = None
        pr = []
        special_terminal_line = False
        i = 0
        while i < len(toks):
            t = toks[i]
            if t in ("•", "ϵ"):
                pass
            elif t == "%if":
                j = i + 1
                c = []
                while j < len(toks) and not toks[j].startswith(PROP_TOKENS):
                    c.append(toks[j])
                    j += 1
                cond = " ".join(c)
                i = j
                continue
            elif t.startswith(PROP_TOKENS):
                pr.append(t)
            elif t.startswith("Some(LexemeIdx(") or t == "None":
                special_terminal_line = True
            else:
                m = re.match(r"^\[(\d+)\](?:::(.*))?$", t)
                if m:
                    rhs.append(("T", int(m.group(1))))
                    rparams.append(None)
                else:
                    nm = t
                    param = None
                    if "::" in nm:
                        nm, param = nm.split("::", 1)
                    rhs.append(("N", nm))
                    rparams.append(param)
            i += 1
        if pr:
            props.setdefault(lhs, [])
            for p in pr:
                if p not in props[lhs]:
                    props[lhs].append(p)
        if special_terminal_line:
            continue
        rules.append((lhs, rhs))
        if cond_txt:
            cond = cond_txt
        if cond:
            conds[len(rules) - 1] = cond
        params[len(rules) - 1] = rparams
    g = CFG(rules, start_hint or first or "start", props)
    g.conds = conds
    g.params = params
    g.parametric = parametric
    return g


# ------------------------------------------------------------------ concrete recogniser (CYK over binarised grammar, with unit/eps closure)
def recognizes(cfg, word):
    g = cfg.binarized()
    n = len(word)
    nts = sorted(g.nonterminals())
    D = {}

    def term(sym, i, j):
        k, v = sym
        if k == "T":
            return j == i + 1 and word[i] == v
        return D.get((v, i, j), False)

    for span in range(0, n + 1):
        for i in range(0, n - span + 1):
            j = i + span
            changed = True
            while changed:
                changed = False
                for l, r in g.rules:
                    if D.get((l, i, j)):
                        continue
                    ok = False
                    if len(r) == 0:
                        ok = i == j
                    elif len(r) == 1:
                        ok = term(r[0], i, j)
                    else:
                        for k in range(i, j + 1):
                            if term(r[0], i, k) and term(r[1], k, j):
                                ok = True
                                break
                    if ok:
                        D[(l, i, j)] = True
                        changed = True
    return D.get((g.start, 0, n), False)


def viable_prefix(cfg, word, alphabet, extra=6):
    """is `word` a prefix of some word of the language? (bounded search by extension is avoided: uses productive-suffix closure)
    Implemented via Earley-free trick: word is viable iff exists derivation... -> use the prefix grammar construction."""
    return recognizes(prefix_grammar(cfg), word)


def prefix_grammar(cfg):
    """grammar for the prefix closure of L(cfg) restricted to productive symbols"""
    g = cfg.trimmed()
    prod = g.productive()
    rules = []
    for l, r in g.rules:
        if any(k == "N" and v not in prod for k, v in r):
            continue
        rules.append((l, r))
        # P(l) -> r[0..i-1] P(r[i])  for each i ; terminals: P(t) = t | eps
        for i in range(len(r)):
            k, v = r[i]
            if k == "N":
                rules.append(("P~" + l, list(r[:i]) + [("N", "P~" + v)]))
            else:
                rules.append(("P~" + l, list(r[:i]) + [r[i]]))
        rules.append(("P~" + l, []))
    if g.start not in prod:
        return CFG([("P~" + g.start, [("T", -999)])], "P~" + g.start)
    return CFG(rules, "P~" + g.start)


# ------------------------------------------------------------------ z3 encoding
class CykEnc:
    """Two-sided CYK table for a symbolic word w[0..n-1] (Int terminal ids). D[(A,i,j)] Bool."""

    def __init__(self, cfg, w, tag):
        self.g = cfg.trimmed().binarized()
        self.w = w
        self.n = len(w)
        self.tag = tag
        self.cons = []
        g = self.g
        n = self.n
        self.nts = sorted(g.nonterminals())
        ml = g.minlen()
        by = {}
        for l, r in g.rules:
            by.setdefault(l, []).append(r)
        self.D = {}
        self.R = {}
        nn = len(self.nts)
        for a in self.nts:
            for i in range(n + 1):
                for j in range(i, n + 1):
                    if ml.get(a, 10 ** 9) > j - i:
                        self.D[(a, i, j)] = z3.BoolVal(False)
                    else:
                        self.D[(a, i, j)] = z3.Bool("%s_D_%s_%d_%d" % (tag, a, i, j))
                        self.R[(a, i, j)] = z3.Int("%s_R_%s_%d_%d" % (tag, a, i, j))
                        self.cons.append(z3.And(self.R[(a, i, j)] >= 0, self.R[(a, i, j)] <= nn))
        for a in self.nts:
            for i in range(n + 1):
                for j in range(i, n + 1):
                    d = self.D[(a, i, j)]
                    if z3.is_false(d):
                        continue
                    alts = []
                    alts_r = []
                    ra = self.R[(a, i, j)]
                    for r in by.get(a, []):
                        if len(r) == 0:
                            if i == j:
                                alts.append(z3.BoolVal(True))
                                alts_r.append(z3.BoolVal(True))
                        elif len(r) == 1:
                            x, xr = self._sym(r[0], i, j, ra, True)
                            if x is not None:
                                alts.append(x)
                                alts_r.append(xr)
                        else:
                            for k in range(i, j + 1):
                                x, xr = self._sym(r[0], i, k, ra, (k == j))
                                if x is None:
                                    continue
                                y, yr = self._sym(r[1], k, j, ra, (k == i))
                                if y is None:
                                    continue
                                alts.append(z3.And(x, y))
                                alts_r.append(z3.And(xr, yr))
                    if not alts:
                        self.cons.append(z3.Not(d))
                        continue
                    self.cons.append(z3.Implies(z3.Or(*alts), d))       # closure: at least the least fixed point
                    self.cons.append(z3.Implies(d, z3.Or(*alts_r)))     # support with strictly decreasing ranks: at most it

    def _sym(self, sym, i, j, parent_rank, same_span):
        """returns (plain, ranked) formulas for `sym derives w[i..j]`, or (None, None) if impossible"""
        k, v = sym
        if k == "T":
            if j != i + 1:
                return None, None
            f = self.w[i] == v
            return f, f
        d = self.D.get((v, i, j))
        if d is None or z3.is_false(d):
            return None, None
        if same_span:
            return d, z3.And(d, self.R[(v, i, j)] < parent_rank)
        return d, d

    def derives(self, j=None):
        j = self.n if j is None else j
        return self.D.get((self.g.start, 0, j), z3.BoolVal(False))


def sym_word(n, terminals, tag="w"):
    w = [z3.Int("%s%d" % (tag, i)) for i in range(n)]
    ts = sorted(terminals)
    cons = [z3.Or(*[x == t for t in ts]) for x in w] if ts else []
    return w, cons


def perturbed_twin(cfg, n_bound, fresh_terminal=99999):
    """a copy of cfg in which ONE rule on a shortest derivation has its first terminal replaced by a fresh terminal.
    Returns (twin, expect_sat): if a sentence of length <= n_bound uses that rule, cfg and twin must be distinguishable."""
    g = cfg.trimmed()
    ml = g.minlen()
    by = {}
    for i, (l, r) in enumerate(g.rules):
        by.setdefault(l, []).append(i)

    def body_len(r):
        t = 0
        for k, v in r:
            t += 1 if k == "T" else ml.get(v, 10 ** 9)
        return t
    # follow a shortest derivation from the start symbol, leftmost
    cur = g.start
    seen = set()
    while cur not in seen:
        seen.add(cur)
        cands = [i for i in by.get(cur, []) if body_len(g.rules[i][1]) == ml.get(cur)]
        if not cands:
            break
        i = cands[0]
        l, r = g.rules[i]
        tpos = [j for j, (k, v) in enumerate(r) if k == "T"]
        if tpos:
            rules = list(g.rules)
            rr = list(r)
            rr[tpos[0]] = ("T", fresh_terminal)
            rules[i] = (l, rr)
            return CFG(rules, g.start), ml.get(g.start, 10 ** 9) <= n_bound
        nxt = [v for k, v in r if k == "N"]
        if not nxt:
            break
        cur = nxt[0]
    return None, False


# ------------------------------------------------------------------ parametric grammars (docs/parametric.md), evaluated in Python
M64 = (1 << 64) - 1


def _pref(txt):
    txt = txt.strip()
    if txt == "_":
        return 0, 64
    m = re.match(r"^\[(\d+):(\d+)\]$", txt)
    if not m:
        raise ValueError("bad bit range %r" % txt)
    return int(m.group(1)), int(m.group(2))


def _field(p, x, y):
    return (p >> x) & ((1 << (y - x)) - 1)


def _num(txt):
    txt = txt.strip()
    return int(txt, 16) if txt.lower().startswith("0x") else int(txt)


def _split_args(txt):
    out, depth, cur = [], 0, ""
    for ch in txt:
        if ch in "([":
            depth += 1
        elif ch in ")]":
            depth -= 1
        if ch == "," and depth == 0:
            out.append(cur)
            cur = ""
        else:
            cur += ch
    out.append(cur)
    return [a.strip() for a in out]


def eval_param_expr(txt, p):
    """value passed to a referenced rule, by the documented meaning"""
    txt = txt.strip()
    if txt == "_":
        return p
    if txt == "null":
        return 0
    m = re.match(r"^(\w+)\((.*)\)$", txt)
    if not m:
        return _num(txt) & M64
    f, a = m.group(1), m.group(2)
    if f == "set_bit":
        return p | (1 << int(a))
    if f == "clear_bit":
        return p & ~(1 << int(a)) & M64
    if f == "bit_or":
        return p | _num(a)
    if f == "bit_and":
        return p & _num(a)
    if f in ("incr", "decr"):
        x, y = _pref(a)
        fld = _field(p, x, y)
        if f == "incr":
            return p if fld == (1 << (y - x)) - 1 else (p + (1 << x)) & M64
        return p if fld == 0 else (p - (1 << x)) & M64
    raise ValueError("unknown parameter expression %r" % txt)


def eval_param_cond(txt, p):
    txt = txt.strip()
    if txt in ("true", "true()"):
        return True
    m = re.match(r"^(\w+)\((.*)\)$", txt)
    if not m:
        raise ValueError("bad condition %r" % txt)
    f, a = m.group(1), _split_args(m.group(2))
    if f == "and":
        return eval_param_cond(a[0], p) and eval_param_cond(a[1], p)
    if f == "or":
        return eval_param_cond(a[0], p) or eval_param_cond(a[1], p)
    if f == "not":
        return not eval_param_cond(a[0], p)
    if f == "bit_clear":
        return (p >> int(a[0])) & 1 == 0
    if f == "bit_set":
        return (p >> int(a[0])) & 1 == 1
    x, y = _pref(a[0])
    fld = _field(p, x, y)
    if f == "is_ones":
        return fld == (1 << (y - x)) - 1
    if f == "is_zeros":
        return fld == 0
    if f.startswith("bit_count_"):
        c, k = bin(fld).count("1"), int(a[1])
        return {"eq": c == k, "ne": c != k, "lt": c < k, "le": c <= k, "gt": c > k, "ge": c >= k}[f[len("bit_count_"):]]
    v = _num(a[1])
    return {"eq": fld == v, "ne": fld != v, "lt": fld < v, "le": fld <= v, "gt": fld > v, "ge": fld >= v}[f]


def expand_parametric(cfg, max_states=400):
    """ordinary CFG over (symbol, parameter value) pairs reachable from the start symbol. Raises ValueError when it does not close
    within max_states."""
    by = {}
    for i, (l, r) in enumerate(cfg.rules):
        by.setdefault(l, []).append(i)
    parametric = getattr(cfg, "parametric", set())

    def nm(sym, v):
        return "%s@%x" % (sym, v) if sym in parametric else sym
    start = (cfg.start, 0)
    seen = {start}
    todo = [start]
    rules = []
    while todo:
        sym, v = todo.pop()
        for i in by.get(sym, []):
            l, r = cfg.rules[i]
            cond = cfg.conds.get(i)
            if cond and not eval_param_cond(cond, v):
                continue
            rhs = []
            ps = cfg.params.get(i) or [None] * len(r)
            for (k, x), pe in zip(r, ps):
                if k == "T":
                    rhs.append((k, x))
                    continue
                nv = eval_param_expr(pe, v) if (pe is not None and x in parametric) else 0
                if (x, nv) not in seen:
                    seen.add((x, nv))
                    todo.append((x, nv))
                    if len(seen) > max_states:
                        raise ValueError("parametric expansion exceeds %d states" % max_states)
                rhs.append(("N", nm(x, nv)))
            rules.append((nm(sym, v), rhs))
    return CFG(rules, nm(*start), cfg.props)
