"""C19 — special tokens only where named (range / marker half). E1: negated token ranges (source slice), contains_token,
parse_numeric_token; E2: the marker byte 0xFF is dead in every text lexeme automaton."""
import time

import z3

from . import e2parts, parser_props as pp
from .automaton import Aut, SymString, encode_run, model_bytes
from .common import (EXIT_INCONCLUSIVE, Timer, log, match_known, save_replay, seed, tier)
from .e1check import E1Outcome, e1_coverage, finish, run_parser_groups, run_svob_only

ASSUMPTIONS = [
    "K19.1: the range-negation loop of GrammarBuilder::negated_token_ranges is cut out of /repo's current source; the `sorted.sort_by_key` call is removed (std's sort does not terminate under CBMC) and the harness supplies ranges ordered by start; ensure!(..) guards are rewritten to early returns (error construction through anyhow/format! is out of CBMC's reach); <= 2 ranges in the quick tier, <= 3 in the thorough tier (the 3-range instance needs ~40 GB and ~15 min under CBMC and runs alone), every u32 vocabulary size",
    "K19.2: LexemeSpec::contains_token on a spec literal with <= 3 symbolic ranges (parse_numeric_token is NOT decided: str::from_utf8 + str::parse::<u32> hit the 600 s cap under CBMC)",
    "K19.4: the statements of ParserState::compute_bias after the trie walk (bare-marker removal, token ranges of the live token-range lexemes through allow_range, EOS), cut from the current source and run in a mock parser state: 40-token mask with symbolic content, symbolic marker / EOS ids, 0-2 live token-range lexemes with one symbolic range each, symbolic flush_lexer() / lexer_allows_eos() answers, start empty or not. Result bit t == (walk bit and t is not the bare marker) or (start empty, flushed, t in a live range) or (t is EOS, start empty, EOS allowed). Which lexemes are live and what the walk leaves is the parser's and is outside",
    "K16.1 (shared with C16): SimpleVob::allow_range on 1..3 word vectors with symbolic previous content and symbolic inclusive range: exactly the bits of the range are added",
    "E2-19.4: for every exported text lexeme automaton and every byte string of <= 5 bytes that contains 0xFF: the run is dead (special-token lexemes and ~-complement lexemes, which the documentation says may match invalid UTF-8, are excepted)",
    "outside the claim: add_numeric_token / flush_and_check_numeric at run time, position sensitivity of <[...]> in the grammar, marker-aware tokenisation (tokenize_bytes_marker needs greedy_tokenize: out of memory under CBMC)",
]


def marker_e2(out, tr, sd):
    cases = e2parts.corpus(tr, sd, with_special=True)
    results = e2parts.export(cases, joint=False)
    N = 5
    st = dict(automata=0, queries=0, solver_s=0.0, special_skipped=0, not_skipped=0, sat=0)
    for c, res in zip(cases, results):
        if not res.get("ok"):
            continue
        lexdesc = {l["idx"]: l["desc"] for l in res.get("lexemes", [])}
        for k, a in enumerate(res.get("automata") or []):
            if "error" in a:
                continue
            au = Aut(a)
            if au.init == 0:
                continue
            if any(au.special) or "tokens=<[" in lexdesc.get(k, ""):
                st["special_skipped"] += 1
                continue
            if c.get("has_not"):
                st["not_skipped"] += 1
                continue
            sym = SymString(N)
            cons, states = encode_run(au, sym, None, "m")
            s = z3.Solver()
            s.add(*cons)
            # some position holds the marker byte and the automaton is still alive right after it
            s.add(z3.Or(*[z3.And(sym.bytes[i] == 0xFF, z3.Not(states[i + 1][0])) for i in range(N) if not z3.is_false(states[i + 1][0]) or True]))
            t0 = time.time()
            r = s.check()
            st["solver_s"] += time.time() - t0
            st["queries"] += 1
            st["automata"] += 1
            if r == z3.sat:
                st["sat"] += 1
                bs = model_bytes(s.model(), sym)
                key = "marker-alive|%s" % c["family"]
                if match_known("C19", key):
                    out.known.append(dict(key=key, what=match_known("C19", key).get("what")))
                    out.violations.append(dict(key=key, known=True))
                    continue
                # concrete confirmation on the exported table
                k_ff = bs.index(0xFF)
                alive = au.run(bs[:k_ff + 1]) != 0
                if alive:
                    rp = save_replay("C19", "c19_marker_%d" % st["sat"], dict(property="C19", key=key, case=c, lexeme=k, lexeme_desc=lexdesc.get(k), bytes=bs[:k_ff + 1],
                                     note="a text lexeme automaton stays alive after the special-token marker byte 0xFF"))
                    out.violations.append(dict(key=key, harness="E2-19.4", failed=[dict(description="lexeme %d alive after 0xFF" % k)], known=False, replay=rp))
                else:
                    out.inconclusive.append("E2-19.4 model not confirmed on the exported table")
            elif r != z3.unsat:
                out.inconclusive.append("E2-19.4 solver unknown")
    # vacuity twin: a synthetic automaton that accepts 0xFF must be flagged
    twin = Aut({"n": 3, "init": 1, "states": [{"t": [], "acc": []}, {"t": [[97, 97, 1], [255, 255, 2]], "acc": []}, {"t": [], "acc": [0]}]})
    sym = SymString(3)
    cons, states = encode_run(twin, sym, None, "t")
    s = z3.Solver()
    s.add(*cons)
    s.add(z3.Or(*[z3.And(sym.bytes[i] == 0xFF, z3.Not(states[i + 1][0])) for i in range(3)]))
    if s.check() != z3.sat:
        out.inconclusive.append("E2-19.4 vacuity twin not flagged")
    if st["automata"] == 0:
        out.inconclusive.append("E2-19.4 explored no automaton")
    return st


def run():
    tm = Timer()
    out = E1Outcome()
    t, sd = tier(), seed()
    specs = pp.specs("builder", "c19", "c19_fail") + pp.specs("lexerspec", "c19") + pp.specs("parser", "c19", "c19_fail")
    # three symbolic ranges need ~40 GB and ~15 min under CBMC: thorough tier only, alone, after the main batch
    big = [s for s in specs if "ranges_n3" in s["name"]]
    specs = [s for s in specs if "ranges_n3" not in s["name"]]
    info = run_parser_groups("C19", "c19", ["builder", "lexerspec", "parser"], specs, out, harness_timeout_s=900)
    if t != "quick" and big:
        infob = run_parser_groups("C19", "c19b", ["builder"], big + [x for x in pp.specs("builder", "c19", "c19_fail") if x["expect"] == "fail"], out, jobs=1, harness_timeout_s=3000, mem_gb=44)
        info["kani_wall_s"] = info.get("kani_wall_s", 0) + infob.get("kani_wall_s", 0)
        specs = specs + big
    # token ranges reach the mask through SimpleVob::allow_range (parser.rs compute_bias, lexerspec token ranges)
    info2, svspecs = run_svob_only("C19", "c19s", ["k16_1_allow_range_w1", "k16_1_allow_range_w2", "k16_1_allow_range_w3"], out)
    try:
        st = marker_e2(out, t, sd)
    except RuntimeError as ex:
        out.inconclusive.append("exporter build failed: %s" % str(ex)[:300])
        st = {}
    cov = e1_coverage(out, [dict(harness=s["name"]) for s in specs[:6]],
                      ["grammar_builder.rs negated_token_ranges loop (source slice)", "earley/lexerspec.rs LexemeSpec::contains_token", "toktrie/src/svob.rs SimpleVob::allow_range", "earley/parser.rs ParserState::compute_bias post-walk statements (source slice)",
                       "lexeme automata of the regex / JSON / Lark corpus (E2-19.4)"],
                      dict(ranges=2 if t == "quick" else 3, marker_string_bytes=5), dict(tier=t, e2_marker=st, kani_wall_s=info.get("kani_wall_s", 0) + info2.get("kani_wall_s", 0)))
    cov["evaluations"] += st.get("queries", 0)
    cov["distinct_nontrivial"] += st.get("automata", 0)
    return finish("C19", out, tm, "model_checking", cov, ASSUMPTIONS)
