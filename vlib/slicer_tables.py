"""C10, set-algebra half at table level: the per-slice masks and remainder tries precomputed by TokenizerSlice::from_topo_node
(dumped from the real code, natively, on a synthetic multi-byte vocabulary) must cover every token of the slice whichever children
applied — decided by z3 over a symbolic token id."""
import json
import os
import random
import time

import z3

from . import e1
from .common import CACHE, VERIF, base_env, log

SLICE_LISTS = [
    "general",
    ["[a-z]+", "[a-z]{1,5}", "[0-9]+", "[0-9]{1,3}", "[ ]+"],
    ["[\\x20\\x0A\\x0D\\x09]+", "[^\"\\\\\\x00-\\x1F\\x7F]{1,4}", "[A-Za-z ]{1,12}", "[0-9 ]+"],
]


def vocabulary(rng):
    words = [[b] for b in range(256)]
    pool = [" ", "\n", "\t", "\r", "a", "b", "z", "Q", "0", "7", "\"", "\\", "é", ",", ":"]
    seen = set(bytes(w) for w in words)
    while len(words) < 256 + 120:
        n = rng.randint(2, 5)
        w = "".join(rng.choice(pool) for _ in range(n)).encode("utf-8")
        if w not in seen:
            seen.add(w)
            words.append(list(w))
    for w in ["  ", "\n\n", " \n", "\r\n", " \t", "    ", "ab", "abc", "hello", "12", "123", "1234", "a1", " a", "a b"]:
        b = w.encode()
        if b not in seen:
            seen.add(b)
            words.append(list(b))
    words.append(list(b"\xffEOS"))
    return words


def dump(sd):
    """build the overlay natively (cfg verif_dump) and return the tables; raises RuntimeError"""
    ov = e1.Overlay("slicer")
    try:
        ov.inject("parser/src/earley/slicer.rs", os.path.join(VERIF, "kani/parser_dump/slicer_dump.rs"), "verif_dump", cfg="verif_dump")
        os.makedirs(ov.path("parser/examples"), exist_ok=True)
        ov.write("parser/examples/verif_slices.rs", open(os.path.join(VERIF, "kani/parser_dump/slices_example.rs")).read())
        words = vocabulary(random.Random(77 + sd))
        job = ov.write("verif_slices.json", json.dumps(dict(words=words, slice_lists=SLICE_LISTS)))
        env = base_env()
        env["RUSTFLAGS"] = "--cfg verif_dump"
        env["CARGO_TARGET_DIR"] = os.path.join(CACHE, "slicer-dump-target")
        import subprocess
        p = subprocess.run(["cargo", "run", "-q", "--offline", "-p", "llguidance", "--no-default-features", "--features", "lark", "--example", "verif_slices", "--", job],
                           cwd=ov.dir, env=env, capture_output=True, text=True)
        if p.returncode != 0:
            raise RuntimeError("slicer table dump failed:\n" + (p.stderr or p.stdout)[-2500:])
        return json.loads(p.stdout), words
    finally:
        ov.cleanup()


def check_tables(dumped, words):
    """returns (stats, violations). For every slice node and every way its children can have applied, a symbolic token id of the slice
    must be covered by an applied child's mask or by a trie that apply() walks."""
    V = len(words)
    t = z3.BitVec("tok", 16)
    stats = dict(slice_nodes=0, queries=0, solver_s=0.0)
    viol = []

    def member(ids):
        ids = list(ids)
        return z3.Or(*[t == i for i in ids]) if ids else z3.BoolVal(False)

    for entry in dumped:
        if "error" in entry:
            continue
        by = {n["idx"]: n for n in entry["tables"]}
        for n in entry["tables"]:
            stats["slice_nodes"] += 1
            mask = set(n["mask_with_children"])
            kids = [by[c] for c in n["children"]]
            s = z3.Solver()
            s.add(z3.ULT(t, V))
            queries = []
            # (I3) a full walk of trie_with_children reaches every token of the slice
            queries.append(("trie_with_children misses a token of the slice", z3.And(member(mask), z3.Not(member(n["trie_with_children"])))))
            # mask_trimmed (OR-ed when the slice itself applies) holds every token of the slice
            queries.append(("mask_trimmed misses a token of the slice", z3.And(member(mask), z3.Not(member(n["mask_trimmed"])))))
            # exactly one child applied: child mask + trie_without_child[i]
            for i, c in enumerate(kids):
                rest = n["trie_without_child"][i]
                queries.append(("only child %d applied: token neither in the child's mask nor in trie_without_child[%d]" % (c["idx"], i),
                                z3.And(member(mask), z3.Not(member(c["mask_with_children"])), z3.Not(member(rest)))))
            # two or more children applied (any subset A with |A| >= 2): applied masks + non-applied children's full tries + trie_without_children
            if len(kids) >= 2:
                ap = [z3.Bool("ap%d" % i) for i in range(len(kids))]
                s.add(z3.Sum([z3.If(a, 1, 0) for a in ap]) >= 2)
                covered = [member(n["trie_without_children"])]
                for a, c in zip(ap, kids):
                    covered.append(z3.And(a, member(c["mask_with_children"])))
                    covered.append(z3.And(z3.Not(a), member(c["trie_with_children"])))
                queries.append(("two or more children applied: token of the slice not covered", z3.And(member(mask), z3.Not(z3.Or(*covered)))))
            for what, f in queries:
                s.push()
                s.add(f)
                t0 = time.time()
                r = s.check()
                stats["solver_s"] += time.time() - t0
                stats["queries"] += 1
                if r == z3.sat:
                    tok = s.model().eval(t, model_completion=True).as_long()
                    viol.append(dict(slices=entry["slices"], slice_idx=n["idx"], slice_regex=n["regex"], what=what, token_id=tok, token_bytes=words[tok]))
                s.pop()
    return stats, viol
