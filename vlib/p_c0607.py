"""C06 / C07 — JSON-schema soundness / completeness at structure level. E2: compiled grammar (lexemes expanded into their finite
atom sets) vs a reference CFG of the canonical serialisations of exactly the valid instances, CYK encoding on a symbolic atom word;
additional-key lexeme checked against the declared keys on its automaton; models concretised to JSON text, judged by python jsonschema
and fed to the real Matcher."""
import json
import random
import re
import time

import z3

from . import e2, gram, jsgen
from .automaton import Aut, SymString, encode_run, model_bytes, state_in
from .common import (EXIT_INCONCLUSIVE, EXIT_OK, EXIT_VIOLATION, Timer, log, match_known, save_replay, seed, settle, tier, write_evidence)


def finite_language(aut, lexeme, cap=40, maxlen=24):
    """enumerate L(aut) if finite and small; else None"""
    out = []
    stack = [(aut.init, b"")]
    good = aut.coreachable(lexeme)
    while stack:
        q, s = stack.pop()
        if q == 0 or q not in good:
            continue
        if len(s) > maxlen or len(out) > cap:
            return None
        if lexeme in aut.acc[q]:
            out.append(s)
        for lo, hi, t in aut.rows[q]:
            if t == 0 or t not in good:
                continue
            if hi - lo > 3:
                return None
            for b in range(lo, hi + 1):
                stack.append((t, s + bytes([b])))
    return out


def gen_cases(tr, sd):
    rng = random.Random(6000 + sd)
    cases = [dict(schema=s, origin="hand") for s in jsgen.HAND]
    n = 250 if tr == "quick" else 1000
    for _ in range(n):
        cases.append(dict(schema=jsgen.gen_case(rng), origin="seed%d" % sd))
    return cases


def engine_cfg(res, atom_id):
    """compiled grammar with every lexeme expanded into its atoms. Returns (CFG, addkey_lexemes, problems)"""
    cg = gram.parse_grammar_text(res["cgrammar"], res.get("cgrammar_start"))
    auts = res.get("automata") or []
    used = cg.terminals()
    rules = []
    addkeys = []
    problems = []
    for k in sorted(used):
        if k >= len(auts) or "error" in auts[k]:
            problems.append("lexeme %d has no automaton" % k)
            continue
        a = Aut(auts[k])
        lang = finite_language(a, k)
        if lang is None:
            addkeys.append(k)
            rules.append(("LEX%d" % k, [("T", atom_id(jsgen.ADDKEY))]))
        else:
            for s in lang:
                rules.append(("LEX%d" % k, [("T", atom_id(s.decode("utf-8", "replace")))]))
    out = []
    for l, r in cg.rules:
        out.append((l, [("N", "LEX%d" % v) if kd == "T" else (kd, v) for kd, v in r]))
    return gram.CFG(out + rules, cg.start), addkeys, problems


def addl_objects(schema):
    """list of declared-key sets, one per object sub-schema that allows additional properties through a schema"""
    out = []

    def walk(s):
        if isinstance(s, dict):
            if s.get("type") == "object" and s.get("additionalProperties", False) is not False:
                out.append(set((s.get("properties") or {}).keys()))
            for v in s.values():
                walk(v)
        elif isinstance(s, list):
            for v in s:
                walk(v)
    walk(schema)
    return out


def _work(args):
    idx, schema, res, N = args
    out = dict(idx=idx, status="ok", queries=0, solver_s=0.0, cands=[], twin=None, sizes=None, note=None, addkey=None)
    c06_only = isinstance(schema, dict) and schema.get("x-verif-c06-only")
    if not res.get("ok") and c06_only:
        # allOf / patternProperties combinations are outside C07's subset: a refusal is the documented answer
        out["status"] = "unsat_ok"
        return out
    if not res.get("ok"):
        out["status"] = "compile_error"
        out["note"] = str(res.get("error"))[:300]
        # a schema with no valid instance at all is rightly rejected at compile time
        try:
            rr0, rs0, _ = jsgen.reference(schema)
            g0 = gram.CFG([(l, [("T", 1) if k == "T" else (k, v) for k, v in r]) for l, r in rr0], rs0)
            if rs0 not in g0.productive():
                out["status"] = "unsat_ok"
        except ValueError:
            pass
        return out
    atoms = {}

    def atom_id(s):
        if s not in atoms:
            atoms[s] = len(atoms) + 1
        return atoms[s]
    try:
        rrules, rstart, ratoms = jsgen.reference(schema)
    except ValueError as ex:
        out["status"] = "skip"
        out["note"] = "reference: %s" % ex
        return out
    ref = gram.CFG([(l, [("T", atom_id(v)) if k == "T" else (k, v) for k, v in r]) for l, r in rrules], rstart)
    eng, addkeys, problems = engine_cfg(res, atom_id)
    if problems:
        out["status"] = "skip"
        out["note"] = "; ".join(problems)
        return out
    # the additional-key lexeme(s) must not accept a declared key (lexeme level, symbolic string)
    auts = res.get("automata") or []
    objs = addl_objects(schema)
    for k in (addkeys if (len(addkeys) == 1 and len(objs) == 1) else []):
        a = Aut(auts[k])
        for key in sorted(objs[0]):
            lit = jsgen.ser(key).encode("utf-8")   # the canonical spelling (serde_json / json.dumps without ASCII escaping)
            q = a.run(lit)
            out["queries"] += 1
            if q != 0 and k in a.acc[q]:
                out["cands"].append(dict(kind="addkey-accepts-declared", key=key, lexeme=k))
    out["addkey"] = len(addkeys)
    terms = eng.terminals() | ref.terminals()
    nts = len(eng.trimmed().binarized().nonterminals()) + len(ref.trimmed().binarized().nonterminals())
    out["sizes"] = (len(eng.rules), len(ref.rules), len(terms), nts)
    if nts > 260:
        out["status"] = "skip_big"
        return out
    w, wc = gram.sym_word(N, terms)
    e1 = gram.CykEnc(eng, w, "e")
    e2_ = gram.CykEnc(ref, w, "r")
    s = z3.Solver()
    s.set("timeout", 300000)
    s.add(*wc)
    s.add(*e1.cons)
    s.add(*e2_.cons)
    inv = {v: k for k, v in atoms.items()}
    for kind, mk in (("C06", lambda j: z3.And(e1.derives(j), z3.Not(e2_.derives(j)))), ("C07", lambda j: z3.And(e2_.derives(j), z3.Not(e1.derives(j))))):
        if kind == "C07" and c06_only:
            continue
        s.push()
        s.add(z3.Or(*[mk(j) for j in range(N + 1)]))
        t0 = time.time()
        r = s.check()
        out["solver_s"] += time.time() - t0
        out["queries"] += 1
        if r == z3.sat:
            m = s.model()
            word = [m.eval(x, model_completion=True).as_long() for x in w]
            found = False
            for j in range(N + 1):
                a, b = gram.recognizes(eng, word[:j]), gram.recognizes(ref, word[:j])
                if (kind == "C06" and a and not b) or (kind == "C07" and b and not a):
                    out["cands"].append(dict(kind=kind, atoms=[inv[t] for t in word[:j]]))
                    found = True
                    break
            if not found:
                out["status"] = "nonrepro"
        elif r != z3.unsat:
            out["status"] = "unknown"
        s.pop()
    if idx % 6 == 0:
        twin, expect = gram.perturbed_twin(ref, N)
        if twin is not None and expect:
            w2, wc2 = gram.sym_word(N, terms | {99999}, tag="v")
            f1 = gram.CykEnc(eng, w2, "e2")
            f3 = gram.CykEnc(twin, w2, "t")
            s2 = z3.Solver()
            s2.set("timeout", 300000)
            s2.add(*wc2)
            s2.add(*f1.cons)
            s2.add(*f3.cons)
            s2.add(z3.Or(*[z3.Xor(f1.derives(j), f3.derives(j)) for j in range(N + 1)]))
            t0 = time.time()
            out["twin"] = str(s2.check())
            out["solver_s"] += time.time() - t0
            out["queries"] += 1
    return out


def concretise(atoms):
    out = ""
    n = 0
    for a in atoms:
        if a == jsgen.ADDKEY:
            out += '"zz%d"' % n
            n += 1
        else:
            out += a
    return out


def run_for(prop):
    from concurrent.futures import ProcessPoolExecutor
    import jsonschema
    tm = Timer()
    tr, sd = tier(), seed()
    N = 12 if tr == "quick" else 14
    cases = gen_cases(tr, sd)
    inconclusive = []
    try:
        for c in cases:
            c["schema_ref"] = c["schema"]
            c["schema"] = {k: v for k, v in c["schema"].items() if not k.startswith("x-verif-")} if isinstance(c["schema"], dict) else c["schema"]
        jobs = [dict(op="compile", kind="json", schema=c["schema"], want=["cgrammar", "lexemes", "automata"], max_states=400) for c in cases]
        results = e2.run_jobs(jobs)
    except RuntimeError as ex:
        write_evidence(prop, "translation_validation", dict(evaluations=1, distinct_nontrivial=0, samples=["exporter build failed"]), tm.s(), 0, [])
        print("INCONCLUSIVE property=%s: %s" % (prop, str(ex)[:500]))
        return EXIT_INCONCLUSIVE
    stats = dict(cases=len(cases), decided=0, queries=0, solver_s=0.0, twins=0, twins_sat=0, skipped=0, compile_errors=0, with_addkey=0)
    cands = []
    samples = []
    work = [(i, c["schema_ref"], results[i], N) for i, c in enumerate(cases)]
    with ProcessPoolExecutor(max_workers=14) as ex:
        for o in ex.map(_work, work, chunksize=2):
            i = o["idx"]
            c = cases[i]
            stats["queries"] += o["queries"]
            stats["solver_s"] += o["solver_s"]
            if o["status"] == "compile_error" and re.search(r"not supported|only supported|[Uu]nsupported|[Uu]nimplemented", o["note"] or ""):
                # documented limitation: the schema is rejected with an error instead (allowed by C06, outside C07's supported subset)
                stats["skipped"] += 1
                continue
            if o["status"] == "compile_error":
                stats["compile_errors"] += 1
                # every generated schema is satisfiable and inside the documented subset: a compile error is a completeness failure
                cands.append((i, dict(kind="C07", compile_error=o["note"])))
                continue
            if o["status"] == "unsat_ok":
                stats["skipped"] += 1
                continue
            if o["status"] in ("skip", "skip_big"):
                stats["skipped"] += 1
                if o["status"] == "skip":
                    inconclusive.append("case %d: %s" % (i, o["note"]))
                continue
            if o["status"] == "unknown":
                inconclusive.append("solver unknown on case %d" % i)
                continue
            if o["status"] == "nonrepro":
                inconclusive.append("case %d: model not confirmed by the concrete recogniser" % i)
                continue
            stats["decided"] += 1
            stats["with_addkey"] += 1 if o["addkey"] else 0
            for cd in o["cands"]:
                cands.append((i, cd))
            if o["twin"] is not None:
                stats["twins"] += 1
                stats["twins_sat"] += (o["twin"] == "sat")
            if len(samples) < 10 and i % max(1, len(cases) // 9) == 0:
                samples.append(dict(origin=c["origin"], schema=c["schema"], rules_engine_reference_atoms_nonterminals=o["sizes"], atom_word_bound=N))
    # replay: JSON text -> python jsonschema (validity) and the real Matcher (acceptance)
    rjobs = []
    texts = []
    for (i, cd) in cands:
        if "atoms" in cd:
            t = concretise(cd["atoms"])
            texts.append(t)
            rjobs.append(dict(op="replay", kind="json", schema=cases[i]["schema"], bytes=list(t.encode("utf-8")), check_mask=False))
        else:
            texts.append(None)
    rres = e2.run_jobs(rjobs) if rjobs else []
    viol = []
    ri = 0
    for (i, cd), t in zip(cands, texts):
        c = cases[i]
        if cd.get("kind") == "addkey-accepts-declared":
            if prop == "C06":
                viol.append(("addkey-accepts-declared", dict(property=prop, schema=c["schema"], key=cd["key"], note="the additional-property key lexeme accepts a declared key, so a declared property can be emitted under the additionalProperties schema")))
            continue
        if "compile_error" in cd:
            if prop == "C07":
                viol.append(("compile-error", dict(property=prop, schema=c["schema"], error=cd["compile_error"])))
            continue
        rr = rres[ri]
        ri += 1
        try:
            inst = json.loads(t)
            wellformed = True
        except Exception:
            inst, wellformed = None, False
        valid = False
        if wellformed:
            try:
                jsonschema.Draft202012Validator(c["schema"], format_checker=jsonschema.FormatChecker()).validate(inst)
                valid = True
            except jsonschema.ValidationError:
                valid = False
        eng_accepts = bool(rr.get("ok") and rr.get("all") and rr.get("accepting"))
        if cd["kind"] == "C06":
            if eng_accepts and not valid:
                if prop == "C06":
                    viol.append(("admits-invalid", dict(property=prop, schema=c["schema"], text=t, engine_accepts=True, jsonschema_valid=False)))
            elif not eng_accepts:
                inconclusive.append("case %d: compiled grammar derives %r but the real Matcher rejects it (export/lexeme expansion problem)" % (i, t))
            else:
                inconclusive.append("case %d: reference CFG misses the valid instance %r (reference bug)" % (i, t))
        else:
            if valid and not eng_accepts:
                if prop == "C07":
                    viol.append(("rejects-valid", dict(property=prop, schema=c["schema"], text=t, engine_accepts=False, jsonschema_valid=True,
                                                       replay=dict(consumed=rr.get("consumed"), of=len(t.encode("utf-8"))))))
            elif not valid:
                inconclusive.append("case %d: reference CFG derives the invalid instance %r (reference bug)" % (i, t))
            else:
                inconclusive.append("case %d: compiled grammar lacks %r but the real Matcher accepts it (export problem)" % (i, t))
    if stats["twins"] and stats["twins_sat"] < stats["twins"]:
        inconclusive.append("vacuity twins: %d of %d sat" % (stats["twins_sat"], stats["twins"]))
    reported = 0
    seen = set()
    known_hits = []
    for key, payload in viol:
        if key in seen:
            continue
        seen.add(key)
        k = match_known(prop, key)
        if k:
            print("KNOWN-FINDING: property=%s %s (%s)" % (prop, k.get("what"), key))
            known_hits.append(key)
            continue
        payload["key"] = key
        rp = save_replay(prop, "%s_%d" % (prop.lower(), reported), payload)
        print("VIOLATION property=%s replay=%s" % (prop, rp))
        log("  ", key, json.dumps(payload, default=str, ensure_ascii=False)[:600])
        reported += 1
    cov = dict(programs=stats["decided"], disagreements_checked=len(cands), samples=samples or [dict(note="none")], tier=tr, cases=len(cases), decided=stats["decided"],
               skipped=stats["skipped"], compile_errors=stats["compile_errors"], schemas_with_additional_key_lexeme=stats["with_addkey"], queries=stats["queries"],
               solver_s=round(stats["solver_s"], 2), vacuity_twins="%d/%d sat" % (stats["twins_sat"], stats["twins"]),
               functions_encoded=["json/schema.rs build/normalise (compile_contents_map, compile_const, $ref/$defs resolution)", "json/compiler.rs gen_json_object/ordered_sequence/bounded_sequence/sequence, gen_json_array, anyOf regex/grammar split, additional-key exclusion regex",
                                  "earley/grammar.rs optimize + CGrammar::from_grammar", "derivre/regexvec automata of every lexeme (expanded into their finite atom sets)"],
               bounds=dict(atom_word_length=N, schema_family="type null/boolean, const, enum, anyOf, $ref/$defs (recursive), objects with ordered properties/required/additionalProperties false|leaf, arrays with prefixItems/items/minItems/maxItems"),
               known_findings_reported=known_hits, inconclusive=inconclusive[:20])
    assumptions = ["structure level: leaves are atoms; numeric ranges (C08), string lengths (C09), formats, pattern, flexible whitespace and the Earley run are outside",
                   "reference CFG = canonical compact serialisations (declared keys in schema order, then additional keys) of the instances that validate, built from instance semantics",
                   "every solver model is concretised to JSON text, judged by python jsonschema (Draft 2020-12, formats asserted) and fed byte by byte to the real Matcher; only a disagreement of those two is reported"]
    write_evidence(prop, "translation_validation", cov, tm.s(), reported, assumptions)
    if reported:
        return EXIT_VIOLATION
    if settle(prop, inconclusive, len(cases)):
        return EXIT_INCONCLUSIVE
    print("OK property=%s tier=%s cases=%d decided=%d queries=%d (%.0fs)" % (prop, tr, len(cases), stats["decided"], stats["queries"], tm.s()))
    return EXIT_OK
