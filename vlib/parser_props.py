"""E1 harness plans over the llguidance (parser) crate: overlay preparation with source slices cut from the CURRENT source."""
import os
import re

from . import e1, fnslice
from .common import REPO, VERIF

H = os.path.join(VERIF, "kani/parser")

MODS = {
    "grammar": ("parser/src/earley/grammar.rs", "grammar_h.rs", "earley::grammar::verif_kani::"),
    "numeric": ("parser/src/json/numeric.rs", "numeric_h.rs", "json::numeric::verif_kani::"),
    "stop": ("parser/src/stop_controller.rs", "stop_h.rs", "stop_controller::verif_kani::"),
    "ffi": ("parser/src/ffi.rs", "ffi_h.rs", "ffi::verif_kani::"),
    "builder": ("parser/src/grammar_builder.rs", "builder_h.rs", "grammar_builder::verif_kani::"),
    "parser": ("parser/src/earley/parser.rs", "parser_h.rs", "earley::parser::verif_kani::"),
    "lexerspec": ("parser/src/earley/lexerspec.rs", "lexerspec_h.rs", "earley::lexerspec::verif_kani::"),
    "tokenparser": ("parser/src/tokenparser.rs", "tokenparser_h.rs", "tokenparser::verif_kani::"),
    # E1c function slices: whole functions cut from the current source, re-hosted in a mock (see vlib/fnslice.py)
    "tpproto": ("parser/src/tokenparser.rs", "tpproto_h.rs", "tokenparser::verif_proto::"),
    "pcache": ("parser/src/earley/parser.rs", "pcache_h.rs", "earley::parser::verif_cache::"),
    "mproto": ("parser/src/matcher.rs", "mproto_h.rs", "matcher::verif_proto::"),
    "ffim": ("parser/src/ffi.rs", "ffim_h.rs", "ffi::verif_ffim::"),
    "pvalid": ("parser/src/earley/parser.rs", "pvalid_h.rs", "earley::parser::verif_valid::"),
    "pspec": ("parser/src/earley/parser.rs", "pspec_h.rs", "earley::parser::verif_spec::"),
    "pforce": ("parser/src/earley/parser.rs", "pforce_h.rs", "earley::parser::verif_force::"),
    "cproto": ("parser/src/constraint.rs", "cproto_h.rs", "constraint::verif_proto::"),
}

# functions of ParserState / Parser re-hosted in MockPS / MockP (kani/parser/pcache_h.rs)
PCACHE_STATE_FNS = ["compute_bias", "with_items_limit", "has_pending_lexeme_bytes", "lexer_state", "num_rows", "rollback",
                    "assert_definitive_inner", "assert_definitive", "check_lexer_bytes_invariant"]
PCACHE_PARSER_FNS = ["invalidate_bias_cache"]

# functions of Matcher re-hosted on local copies of its type definitions (kani/parser/mproto_h.rs)
MATCHER_FNS = ["with_inner", "consume_tokens", "consume_token", "rollback", "reset", "compute_mask", "compute_mask_or_eos", "is_accepting",
               "is_stopped", "stop_reason", "compute_ff_tokens", "consume_ff_tokens", "compute_ff_bytes", "try_consume_tokens",
               "validate_tokens", "is_error"]

# C entry points of the matcher interface (top-level functions of ffi.rs) + LlgMatcher helpers (kani/parser/ffim_h.rs)
FFIM_TOP_FNS = ["slice_from_ptr_or_empty", "llg_matcher_compute_mask_into", "llg_matcher_compute_mask", "llg_matcher_get_mask", "llg_matcher_get_mask_byte_size",
                "llg_matcher_consume_token", "llg_matcher_consume_tokens", "llg_matcher_rollback", "llg_matcher_reset", "llg_matcher_is_accepting",
                "llg_matcher_is_stopped", "llg_matcher_validate_tokens", "llg_matcher_compute_ff_tokens"]
FFIM_IMPL_FNS = ["wrap", "clear_mask", "mask_elts"]

# functions of Constraint re-hosted on a local copy of its struct (kani/parser/cproto_h.rs)
CONSTRAINT_FNS = ["save_progress_and_result", "save_temperature", "force_tokens", "has_pending_stop", "compute_mask", "compute_mask_inner",
                  "step_result", "res_commit_result", "validate_tokens_raw", "catch_unwind", "commit_token", "commit_token_inner", "tok_trie"]

# functions of TokenParser re-hosted in MockTP (kani/parser/tpproto_h.rs)
TP_FNS = ["stop_reason", "stopped", "is_accepting", "clear_caches", "stop", "tok_trie", "check_initialized", "validate_token", "reset",
          "rollback", "validate_tokens_raw", "anyhow_error", "compute_mask_inner", "stop_for_parser_error", "apply_token",
          "pending_grm_prefix", "has_ff_bytes", "can_force_bytes", "compute_ff_bytes_to", "compute_ff_bytes_inner", "consume_token",
          "check_stop"]

HARNESSES = {
    "grammar": dict(c05=["c05_paramref_mask_eval", "c05_paramexpr_eval", "c05_paramcond_compare", "c05_paramcond_bitcount_eq_ne", "c05_paramcond_bitcount_le_lt", "c05_paramcond_bitcount_ge_gt"], c05_fail=["c05_witness_must_fail"],
                    c15=["c15_uf_find", "c15_uf_union", "c15_uf_compress_all"]),
    "numeric": dict(c08=["c08_normalize_integer_bounds", "c08_min_max_selection", "c08_decimal_lcm_small"], c20=["c20_decimal_new", "c20_decimal_lcm_no_overflow", "c20_gcd"],
                    c20_fail=["c20_numeric_witness_must_fail"]),
    "stop": dict(c20=["c20_valid_utf8_len", "c20_valid_utf8_len_truncated_tail", "c20_valid_utf8_len_complete_text"]),
    "ffi": dict(c17=["k17_1_par_copy_v31_d0_k0", "k17_1_par_copy_v31_d0_k1", "k17_1_par_copy_v31_d0_k2", "k17_1_par_copy_v31_d1_k0", "k17_1_par_copy_v31_d1_k1", "k17_1_par_copy_v31_d1_k2", "k17_1_par_copy_v31_d2_k0", "k17_1_par_copy_v32_d1_k0", "k17_1_par_copy_v32_d2_k0", "k17_1_par_copy_v33_d1_k0", "k17_1_par_copy_v33_d3_k0", "k17_1_par_copy_v33_d3_k1", "k17_1_par_copy_v33_d3_k2", "k17_1_par_copy_v63_d2_k0", "k17_1_par_copy_v64_d2_k0", "k17_1_par_copy_v64_d2_k1", "k17_1_par_copy_v64_d2_k2", "k17_1_par_copy_v64_d4_k0", "k17_1_par_copy_v5_d1_k0",
                     "k17_2_mask_into_slice_bounds", "k17_2_mask_into_slice_real", "k17_3_token_range_test"],
                c17_fail=["k17_witness_must_fail"]),
    "builder": dict(c19=["k19_1_negated_ranges_n1", "k19_1_negated_ranges_n2", "k19_1_negated_ranges_n3"], c19_fail=["k19_1_witness_must_fail"]),
    "parser": dict(c20=["c20_item_packing"], c13=["k13_3_forced_byte_probe"], c13_fail=["k13_3_witness_must_fail"],
                   c19=["k19_4_bias_post_s0_n0", "k19_4_bias_post_s0_n1", "k19_4_bias_post_s0_n2", "k19_4_bias_post_s1_n1"], c19_fail=["k19_4_witness_must_fail"]),
    "lexerspec": dict(c19=["k19_2_contains_token"]),
    "pcache": dict(c11=["p11_cache_pre1_none", "p11_cache_pre0_push", "p11_cache_pre1_push_push", "p11_cache_pre1_rb1_push", "p11_cache_pre2_rb1_push",
                        "p11_cache_pre2_rb2_push", "p11_cache_pre1_push_rb1", "p11_cache_pre1_push_rb2", "p11_cache_pre2_rb1_rb1", "p11_cache_pre1_rb1_none",
                        "p11_start_bypasses_cache"],
                   c11_fail=["p11_witness_must_fail"]),
    "mproto": dict(c18=["p18m_error_is_sticky", "p18m_consume_n1", "p18m_consume_n3", "p18m_after_stop", "p01m_try_consume_n2", "p01m_try_consume_n3"],
                   c18_fail=["mproto_witness_must_fail"]),
    "pforce": dict(c12=["p12f_c_f_rb1_c_f", "p12f_c_c_f_rb2_c", "p12f_c_f_rb1_f_none"], c12_fail=["p12f_witness_must_fail"]),
    "pspec": dict(c11=["p11s_speculation_base0", "p11s_speculation_base2"], c11_fail=["p11s_witness_must_fail"]),
    "pvalid": dict(c01=["p01v_validate_t1_f0", "p01v_validate_t2_f0", "p01v_validate_t2_f1", "p01v_validate_t2_f2", "p01v_validate_t3_f1"],
                   c01_fail=["p01v_witness_must_fail"]),
    "ffim": dict(c17=["k17_4_tokens_n0", "k17_4_tokens_n1", "k17_4_tokens_n3", "k17_4_ff_out1_n0", "k17_4_ff_out1_n2", "k17_4_ff_out2_n1", "k17_4_ff_out2_n2", "k17_4_ff_out2_n3", "k17_4_mask_v33_d2", "k17_4_mask_v33_d1",
                      "k17_4_mask_v33_d3", "k17_4_mask_v32_d1", "k17_4_mask_v31_d1", "k17_4_status"], c17_fail=["k17_4_witness_must_fail"]),
    "cproto": dict(c18=["p18c_compute_mask", "p18c_after_stop", "p18c_commit"], c18_fail=["cproto_witness_must_fail"]),
    "tpproto": dict(c12=["p12_rollback_n0_k1", "p12_rollback_n1_k1", "p12_refuse_n1", "p12_refuse_n2"],
                    c18=["p18_stopped_is_final", "p18_check_stop_exact", "p18_eos_not_accepting", "p18_pending_forced_text_is_not_accepting", "p18_mask_protocol",
                         "p18_out_of_range_token_fails_for_good", "p18_budget"],
                    c01=["p01_commit_accounting"], c13=["p13_prefix_pl1", "p13_prefix_pl2"],
                    proto_fail=["tpproto_witness_must_fail"]),
    "tokenparser": dict(c13=["k13_4_prompt_p2_g2_c0", "k13_4_prompt_p2_g2_c1", "k13_4_prompt_p2_g2_c2", "k13_4_prompt_p2_g2_c3", "k13_4_prompt_p2_g2_c4", "k13_4_prompt_p0_g2_c1",
                             "k13_4_prompt_p2_g0_c1", "k13_4_prompt_p3_g1_c2", "k13_4_prompt_p1_g3_c2", "k13_4_prompt_p0_g0_c0"], c13_fail=["k13_4_witness_must_fail"]),
}


SliceError = fnslice.SliceError


def slice_pcache_fns():
    src = open(os.path.join(REPO, "parser/src/earley/parser.rs")).read()
    fns = [fnslice.extract_fn(src, n, within="impl ParserState {") for n in PCACHE_STATE_FNS]
    pf = [fnslice.extract_fn(src, n, within="impl Parser {") for n in PCACHE_PARSER_FNS]
    return fnslice.impl_block("impl MockPS", fns) + "\n" + fnslice.impl_block("impl MockP", pf)


def slice_matcher_fns():
    src = open(os.path.join(REPO, "parser/src/matcher.rs")).read()
    fns = [fnslice.extract_fn(src, n, within="impl Matcher {") for n in MATCHER_FNS]
    return fnslice.impl_block("impl Matcher", fns)


def slice_constraint_fns():
    src = open(os.path.join(REPO, "parser/src/constraint.rs")).read()
    fns = [fnslice.extract_fn(src, n, within="impl Constraint {") for n in CONSTRAINT_FNS]
    return fnslice.impl_block("impl Constraint", fns)


PFORCE_FNS = ["needs_force_bytes", "force_bytes", "with_items_limit", "rollback", "has_pending_lexeme_bytes", "lexer_state", "num_rows",
              "assert_definitive_inner", "assert_definitive", "check_lexer_bytes_invariant"]


def slice_pforce_fns():
    src = open(os.path.join(REPO, "parser/src/earley/parser.rs")).read()
    fns = [fnslice.extract_fn(src, n, within="impl ParserState {") for n in PFORCE_FNS]
    return fnslice.impl_block("impl MockPS", fns)


PSPEC_FNS = ["run_speculative", "trie_started_inner", "trie_finished_inner", "pop_lexer_states", "lexer_state", "num_rows",
             "assert_definitive_inner", "assert_definitive", "check_lexer_bytes_invariant"]


def slice_pspec_fns():
    src = open(os.path.join(REPO, "parser/src/earley/parser.rs")).read()
    fns = [fnslice.extract_fn(src, n, within="impl ParserState {") for n in PSPEC_FNS]
    return fnslice.impl_block("impl MockPS", fns)


def slice_pvalid_fns():
    src = open(os.path.join(REPO, "parser/src/earley/parser.rs")).read()
    fns = [fnslice.extract_fn(src, "validate_tokens", within="impl ParserState {", required_substrings=("try_push_byte", "eos_tokens"))]
    return fnslice.impl_block("impl MockPS", fns)


def slice_ffim_fns():
    src = open(os.path.join(REPO, "parser/src/ffi.rs")).read()
    top = [fnslice.extract_fn(src, n, indent=0) for n in FFIM_TOP_FNS]
    imp = [fnslice.extract_fn(src, n, within="impl LlgMatcher {") for n in FFIM_IMPL_FNS]
    return "\n\n".join("#[allow(unused_variables, unused_mut, dead_code, unused_unsafe, clippy::all)]\n" + t for t in top) + "\n" + \
        fnslice.impl_block("impl LlgMatcher", imp)


def slice_tp_fns():
    src = open(os.path.join(REPO, "parser/src/tokenparser.rs")).read()
    fns = [fnslice.extract_fn(src, n) for n in TP_FNS]
    return fnslice.impl_block("impl MockTP", fns)


def _block_after(lines, start_idx):
    """lines of the brace block opened on lines[start_idx] (exclusive of the header and the closing brace)"""
    depth = 0
    out = []
    started = False
    for i in range(start_idx, len(lines)):
        ln = lines[i]
        opens = ln.count("{")
        closes = ln.count("}")
        if not started:
            depth += opens - closes
            started = True
            continue
        if depth + opens - closes <= 0:
            return out
        depth += opens - closes
        out.append(ln)
    raise SliceError("unbalanced block")


def slice_ffi_par():
    src = open(os.path.join(REPO, "parser/src/ffi_par.rs")).read().splitlines()
    idx = [i for i, l in enumerate(src) if "if let Some(constraint) = &mut cc.constraint {" in l]
    if len(idx) != 1:
        raise SliceError("anchor `if let Some(constraint) = &mut cc.constraint {` not found exactly once in ffi_par.rs")
    body = _block_after(src, idx[0])
    if not any("copy_nonoverlapping" in l for l in body) or not any("write_bytes" in l for l in body):
        raise SliceError("ffi_par.rs mask-copy block does not look like the expected statements any more")
    return "if let Some(constraint) = &mut cc.constraint {\n" + "\n".join(body) + "\n}\n"


def slice_ffi_token():
    src = open(os.path.join(REPO, "parser/src/ffi.rs")).read()
    m = re.search(r"let token = (if token < trie\.vocab_size\(\) as LlgToken \{.*?\} else \{.*?\});", src, re.S)
    if not m:
        raise SliceError("anchor `let token = if token < trie.vocab_size() as LlgToken` not found in ffi.rs")
    return m.group(1) + "\n"


def _rewrite_ensure(text):
    """ensure!(cond, fmt, args..) -> if !(cond) { return Err(()); }   (error *construction* through anyhow/format! is what CBMC cannot
    get through -- 500 s on a concrete input; the guard conditions themselves are kept verbatim)"""
    out = ""
    i = 0
    while True:
        k = text.find("ensure!(", i)
        if k < 0:
            out += text[i:]
            break
        out += text[i:k]
        j = k + len("ensure!(")
        depth = 1
        args = []
        cur = ""
        in_str = False
        while j < len(text) and depth > 0:
            ch = text[j]
            if in_str:
                cur += ch
                if ch == "\\":
                    cur += text[j + 1]
                    j += 1
                elif ch == '"':
                    in_str = False
            elif ch == '"':
                in_str = True
                cur += ch
            elif ch in "([{":
                depth += 1
                cur += ch
            elif ch in ")]}":
                depth -= 1
                if depth > 0:
                    cur += ch
            elif ch == "," and depth == 1:
                args.append(cur)
                cur = ""
            else:
                cur += ch
            j += 1
        args.append(cur)
        # skip the trailing semicolon
        while j < len(text) and text[j] in " \n":
            j += 1
        if j < len(text) and text[j] == ";":
            j += 1
        out += "if !(%s) { return Err(()); }" % args[0].strip()
        i = j
    return out


def slice_negated():
    src = open(os.path.join(REPO, "parser/src/grammar_builder.rs")).read().splitlines()
    st = [i for i, l in enumerate(src) if "let mut sorted = token_ranges.clone();" in l]
    if len(st) != 1:
        raise SliceError("anchor `let mut sorted = token_ranges.clone();` not found exactly once in grammar_builder.rs")
    out = []
    sort_seen = False
    for i in range(st[0] + 1, len(src)):
        if src[i].strip() == "sorted.sort_by_key(|r| *r.start());":
            # std's sort does not terminate under CBMC even on one concrete element (327 s): the call is cut out and the
            # harness supplies `sorted` itself, ordered by range start (stated in the evidence)
            sort_seen = True
            continue
        out.append(src[i])
        if src[i].strip() == "negated":
            if not sort_seen:
                raise SliceError("expected `sorted.sort_by_key(|r| *r.start());` inside the negation block")
            return "{\n" + _rewrite_ensure("\n".join(out)) + "\n}\n"
        if i - st[0] > 80:
            break
    raise SliceError("end anchor `negated` not found after the start anchor in grammar_builder.rs")


def slice_forced_byte():
    """statements of the speculative closure of ParserState::forced_byte after `let mut r = ParserRecognizer { state };`"""
    src = open(os.path.join(REPO, "parser/src/earley/parser.rs")).read().splitlines()
    idx = [i for i, l in enumerate(src) if 'self.run_speculative("forced_byte", |state| {' in l]
    if len(idx) != 1:
        raise SliceError('anchor `self.run_speculative("forced_byte", |state| {` not found exactly once in parser.rs')
    body = _block_after(src, idx[0])
    while body and not body[0].strip():
        body.pop(0)
    if not body or body[0].strip() != "let mut r = ParserRecognizer { state };":
        raise SliceError("forced_byte closure does not start with `let mut r = ParserRecognizer { state };` any more")
    body = body[1:]
    if not any("try_push_byte" in l for l in body):
        raise SliceError("forced_byte closure does not probe with try_push_byte any more")
    return "{\n" + "\n".join(body) + "\n}\n"


def slice_bias_post():
    """statements of ParserState::compute_bias after the trie walk: from the marker comment up to the cache update"""
    src = open(os.path.join(REPO, "parser/src/earley/parser.rs")).read().splitlines()
    fn = [i for i, l in enumerate(src) if l.startswith("    fn compute_bias(&mut self, computer: &dyn BiasComputer, start: &[u8]) -> SimpleVob {")]
    if len(fn) != 1:
        raise SliceError("anchor `fn compute_bias(&mut self, computer: &dyn BiasComputer, start: &[u8]) -> SimpleVob {` (ParserState) not found exactly once in parser.rs")
    body = _block_after(src, fn[0])
    # start: first statement after `self.stats.lexer_cost = …;` (the end of the walk) ; end: the cache update
    st = [i for i, l in enumerate(body) if l.strip().startswith("self.stats.lexer_cost =")]
    en = [i for i, l in enumerate(body) if l.strip() == "// Update cache when start is empty"]
    if len(st) != 1 or len(en) != 1 or en[0] <= st[0]:
        raise SliceError("compute_bias no longer has `self.stats.lexer_cost = …;` followed by `// Update cache when start is empty`")
    part = body[st[0] + 1:en[0]]
    txt = "\n".join(part)
    for need in ("disallow_token", "allow_range", "allow_token"):
        if need not in txt:
            raise SliceError("compute_bias post-walk statements no longer contain %s" % need)
    return "{\n" + txt + "\n}\n"


def _strip_macro_calls(text, name):
    """removes `name!( … );` statements (balanced parentheses, string literals respected)"""
    out = ""
    i = 0
    pat = name + "!("
    while True:
        k = text.find(pat, i)
        if k < 0:
            return out + text[i:]
        out += text[i:k]
        j = k + len(pat)
        depth = 1
        in_str = False
        while j < len(text) and depth > 0:
            ch = text[j]
            if in_str:
                if ch == "\\":
                    j += 1
                elif ch == '"':
                    in_str = False
            elif ch == '"':
                in_str = True
            elif ch == "(":
                depth += 1
            elif ch == ")":
                depth -= 1
            j += 1
        while j < len(text) and text[j] in " \n":
            j += 1
        if j < len(text) and text[j] == ";":
            j += 1
        i = j


def slice_process_prompt():
    """statements of TokenParser::process_prompt from the tokenisation of prompt+grammar bytes to the end of the chop_bytes if/else"""
    src = open(os.path.join(REPO, "parser/src/tokenparser.rs")).read().splitlines()
    fn = [i for i, l in enumerate(src) if l.startswith("    pub fn process_prompt(&mut self, prompt: Vec<TokenId>) -> Vec<TokenId> {")]
    if len(fn) != 1:
        raise SliceError("anchor `pub fn process_prompt(&mut self, prompt: Vec<TokenId>) -> Vec<TokenId> {` not found exactly once in tokenparser.rs")
    body = _block_after(src, fn[0])
    st = [i for i, l in enumerate(body) if l.strip() == "let (tokens, num_fixed) = self.token_env.tokenize_bytes_marker(&prompt_bytes);"]
    if len(st) != 1:
        raise SliceError("process_prompt no longer has `let (tokens, num_fixed) = self.token_env.tokenize_bytes_marker(&prompt_bytes);`")
    part = body[st[0]:]
    while part and not part[-1].strip():
        part.pop()
    if not part or part[-1].strip() != "res_prompt":
        raise SliceError("process_prompt no longer ends with the expression `res_prompt`")
    txt = _strip_macro_calls("\n".join(part), "infoln")
    for need in ("tokenize_and_chop", "if chop_bytes <= grm_bytes.len()", "apply_forced", "self.grm_prefix = prompt_bytes"):
        if need not in txt:
            raise SliceError("process_prompt tail no longer contains `%s`" % need)
    return "{\n" + txt + "\n}\n"


def prepare(tag, mods):
    """returns overlay with the requested harness modules injected. raises SliceError / FileNotFoundError (-> inconclusive)"""
    ov = e1.Overlay(tag)
    try:
        for m in mods:
            rel, hf, _ = MODS[m]
            ov.inject(rel, os.path.join(H, hf), MODS[m][2].split("::")[-2])
        if "ffi" in mods:
            ov.write("parser/src/verif_ffi_par_slice.rs", slice_ffi_par())
            ov.write("parser/src/verif_ffi_token_slice.rs", slice_ffi_token())
        if "parser" in mods:
            ov.write("parser/src/earley/verif_forced_byte_slice.rs", slice_forced_byte())
            ov.write("parser/src/earley/verif_bias_post_slice.rs", slice_bias_post())
        if "tokenparser" in mods:
            ov.write("parser/src/verif_process_prompt_slice.rs", slice_process_prompt())
        if "pcache" in mods:
            ov.write("parser/src/earley/verif_pcache_fns.rs", slice_pcache_fns())
        if "mproto" in mods:
            ov.write("parser/src/verif_matcher_fns.rs", slice_matcher_fns())
        if "cproto" in mods:
            ov.write("parser/src/verif_constraint_fns.rs", slice_constraint_fns())
        if "pforce" in mods:
            ov.write("parser/src/earley/verif_pforce_fns.rs", slice_pforce_fns())
        if "pspec" in mods:
            ov.write("parser/src/earley/verif_pspec_fns.rs", slice_pspec_fns())
        if "pvalid" in mods:
            ov.write("parser/src/earley/verif_pvalid_fns.rs", slice_pvalid_fns())
        if "ffim" in mods:
            ov.write("parser/src/verif_ffim_fns.rs", slice_ffim_fns())
        if "tpproto" in mods:
            ov.write("parser/src/verif_tp_fns.rs", slice_tp_fns())
        if "builder" in mods:
            ov.write("parser/src/verif_negated_slice.rs", slice_negated())
    except Exception:
        ov.cleanup()
        raise
    return ov


def specs(mod, group, fail_group=None):
    pre = MODS[mod][2]
    out = [dict(name=pre + n, expect="pass", family=group.upper()) for n in HARNESSES[mod].get(group, [])]
    if fail_group:
        out += [dict(name=pre + n, expect="fail", family=group.upper()) for n in HARNESSES[mod].get(fail_group, [])]
    return out
