"""C01 — the mask is exactly the set of tokens the engine accepts (validation / commit bookkeeping half only). E1c: ParserState::validate_tokens,
Matcher::try_consume_tokens and TokenParser's commit / mask epilogue as whole-function slices of the current source over stub collaborators."""
from . import parser_props as pp
from .common import Timer, tier
from .e1check import E1Outcome, e1_coverage, finish, run_parser_groups

ASSUMPTIONS = [
    "bounded model checking (Kani 0.68/CBMC 6.11), unwinding assertions on",
    "P01v: ParserState::validate_tokens cut verbatim from /repo's current earley/parser.rs, re-hosted in a mock parser state: try_push_byte is an arbitrary table acceptor over the speculative byte stack (per depth and byte class), pending forced bytes (0-2) and token spellings (4 tokens, 0-2 bytes, token 3 = end of sequence) are symbolic; no token-range lexeme is live. Decided for 1-3 tokens: the result is exactly the number of leading tokens that can be committed one by one (each byte equals the pending forced byte at its position or, beyond them, is accepted; the marker byte never is; a token is compared in its special spelling when the pending forced byte is the marker); end-of-sequence counts exactly when nothing forced is pending and the state is accepting, and ends the count; the speculative stack is left as found",
    "P01m: Matcher::try_consume_tokens (matcher.rs, verbatim) over a stub TokenParser: returns exactly the number of leading tokens the engine validated and committed exactly those, in order, with the stop check after each",
    "P01t: TokenParser::{consume_token, apply_token, compute_mask_inner} (tokenparser.rs, verbatim) over a stub parser (byte stack): a committed token appends exactly its bytes to the engine's and the parser's history, a refused token fails the engine and leaves the parser's history alone; in the computed mask the end-of-sequence bit is set whenever the state is accepting and every other bit is the walk's",
    "outside the claim (NOT decided): the first sentence of C01 — that the walk's mask equals the set of tokens try_push_byte / apply_token accept (speculative trie walk with row reuse vs definitive application inside the Earley interpreter), the canonical-tokenisation narrowing, numeric special tokens. Those need the interpreter under the solver (DESIGN §1 probes)",
]


def run():
    tm = Timer()
    out = E1Outcome()
    specs = pp.specs("pvalid", "c01", "c01_fail") + pp.specs("tpproto", "c01") + [s for s in pp.specs("tpproto", "c18") if "mask_protocol" in s["name"]] + \
        [s for s in pp.specs("mproto", "c18") if "p01m" in s["name"]]
    if tier() == "quick":
        specs = [s for s in specs if "t3_f1" not in s["name"] and "try_consume_n3" not in s["name"]]
    info = run_parser_groups("C01", "c01", ["pvalid", "tpproto", "mproto"], specs, out, jobs=6, harness_timeout_s=1200, mem_gb=40)
    cov = e1_coverage(out, [dict(harness=s["name"]) for s in specs[:8]],
                      ["earley/parser.rs ParserState::validate_tokens (whole-function slice)", "matcher.rs Matcher::{with_inner, try_consume_tokens} (whole-function slices)",
                       "tokenparser.rs TokenParser::{consume_token, apply_token, compute_mask_inner, is_accepting, ...} (whole-function slices)"],
                      dict(tokens="1..3", forced_bytes="0..2", token_len="0..2", vocab=4, acceptor="depth<=6 x 4 byte classes"),
                      dict(tier=tier(), stubs=["ParserRecognizer::try_push_byte (table acceptor)", "is_accepting_inner", "flush_and_check_numeric (None)", "TokTrie (4-token table)", "earley::Parser (byte stack)", "TokenParser (call log) for Matcher"], **info))
    return finish("C01", out, tm, "model_checking", cov, ASSUMPTIONS)
