"""Lexer automata exported from the engine (llgx) + their z3 encoding + a concrete simulator."""
import z3


class Aut:
    """states: index 0 is dead. trans[q] = list of (lo, hi, target). acc[q] = set of lexeme idxs accepting at q."""

    def __init__(self, j, lexeme=None):
        self.n = j["n"]
        self.init = j["init"]
        self.rows = []
        self.acc = []
        self.lazy = []
        self.nb = []
        self.special = []
        for st in j["states"]:
            self.rows.append([tuple(x) for x in st["t"]])
            a = st.get("acc", [])
            if isinstance(a, bool):
                a = [lexeme] if a else []
            self.acc.append(set(a))
            self.lazy.append(set(st.get("lazy", [])))
            self.nb.append(st.get("nb"))
            self.special.append(st.get("special", False))
        self.lexemes = j.get("lexemes", [lexeme] if lexeme is not None else [])
        self._classes = None

    def step(self, q, b):
        for lo, hi, t in self.rows[q]:
            if lo <= b <= hi:
                return t
        return 0

    def run(self, bs, q=None):
        q = self.init if q is None else q
        for b in bs:
            q = self.step(q, b)
            if q == 0:
                return 0
        return q

    def accepts(self, bs, lexeme=None):
        q = self.run(bs)
        if lexeme is None:
            return len(self.acc[q]) > 0
        return lexeme in self.acc[q]

    def alive(self, bs):
        return self.run(bs) != 0

    def byte_classes(self, extra_cuts=()):
        """partition 0..255 into maximal intervals on which every row is constant; returns list of (lo, hi)"""
        cuts = {0, 256}
        for row in self.rows:
            for lo, hi, _ in row:
                cuts.add(lo)
                cuts.add(hi + 1)
        for c in extra_cuts:
            cuts.add(c)
        cs = sorted(cuts)
        return [(cs[i], cs[i + 1] - 1) for i in range(len(cs) - 1)]

    def coreachable(self, lexeme=None):
        """states from which an accepting state is reachable"""
        good = set(q for q in range(self.n) if (self.acc[q] if lexeme is None else lexeme in self.acc[q]))
        rev = {}
        for q in range(self.n):
            for lo, hi, t in self.rows[q]:
                rev.setdefault(t, set()).add(q)
        stack = list(good)
        while stack:
            t = stack.pop()
            for q in rev.get(t, ()):
                if q not in good:
                    good.add(q)
                    stack.append(q)
        return good


def merge_classes(auts, extra_cuts=()):
    cuts = {0, 256}
    for a in auts:
        for lo, hi in a.byte_classes():
            cuts.add(lo)
            cuts.add(hi + 1)
    for c in extra_cuts:
        cuts.add(c)
    cs = sorted(cuts)
    return [(cs[i], cs[i + 1] - 1) for i in range(len(cs) - 1)]


class SymString:
    """A symbolic byte string of exactly n bytes; bytes as 8-bit vectors + class one-hot helpers."""

    def __init__(self, n, prefix="b"):
        self.n = n
        self.bytes = [z3.BitVec("%s%d" % (prefix, i), 8) for i in range(n)]

    def in_range(self, i, lo, hi):
        b = self.bytes[i]
        if lo == hi:
            return b == lo
        if lo == 0 and hi == 255:
            return z3.BoolVal(True)
        if lo == 0:
            return z3.ULE(b, hi)
        if hi == 255:
            return z3.UGE(b, lo)
        return z3.And(z3.UGE(b, lo), z3.ULE(b, hi))


def encode_run(aut, sym, classes=None, tag="r", start=None, start_set=None):
    """Unrolled run of `aut` over sym (exact length). Returns (constraints, states) where states[k][q] is a Bool:
    'after k bytes the automaton is in state q' (exactly one true). One-hot encoding, pure SAT."""
    if classes is None:
        classes = aut.byte_classes()
    n = sym.n
    cons = []
    # class indicator per position
    cls = []
    for i in range(n):
        cls.append([sym.in_range(i, lo, hi) for lo, hi in classes])
    # transition table per class
    tab = []
    for q in range(aut.n):
        row = []
        for lo, hi in classes:
            row.append(aut.step(q, lo))
        tab.append(row)
    states = []
    if start_set is not None:
        # symbolic start state: exactly one of start_set
        ss = sorted(start_set)
        s0 = [z3.Bool("%s_s0_%d" % (tag, q)) if q in start_set else z3.BoolVal(False) for q in range(aut.n)]
        cons.append(z3.Or(*[s0[q] for q in ss]))
        for i in range(len(ss)):
            for j in range(i + 1, len(ss)):
                cons.append(z3.Or(z3.Not(s0[ss[i]]), z3.Not(s0[ss[j]])))
    else:
        s0 = [z3.BoolVal(q == (aut.init if start is None else start)) for q in range(aut.n)]
    states.append(s0)
    for k in range(n):
        prev = states[-1]
        nxt = [z3.Bool("%s_s%d_%d" % (tag, k + 1, q)) for q in range(aut.n)]
        # nxt[q'] <=> OR_{q,c: tab[q][c]==q'} prev[q] & cls[k][c]
        inc = {}
        for q in range(aut.n):
            if z3.is_false(prev[q]):
                continue
            for c in range(len(classes)):
                inc.setdefault(tab[q][c], []).append(z3.And(prev[q], cls[k][c]) if not z3.is_true(prev[q]) else cls[k][c])
        for q2 in range(aut.n):
            terms = inc.get(q2, [])
            if not terms:
                nxt[q2] = z3.BoolVal(False)
            else:
                cons.append(nxt[q2] == z3.Or(*terms))
        states.append(nxt)
    return cons, states


def state_in(states_k, qs):
    ts = [states_k[q] for q in qs if not z3.is_false(states_k[q])]
    if not ts:
        return z3.BoolVal(False)
    return z3.Or(*ts)


def model_bytes(model, sym):
    out = []
    for b in sym.bytes:
        v = model.eval(b, model_completion=True)
        out.append(v.as_long())
    return out


def single_string(aut, lexeme=None):
    """if the automaton accepts exactly one string return it (bytes), else None"""
    q = aut.init
    out = []
    seen = set()
    while True:
        if q in seen:
            return None
        seen.add(q)
        is_acc = bool(aut.acc[q]) if lexeme is None else (lexeme in aut.acc[q])
        row = [(lo, hi, t) for lo, hi, t in aut.rows[q] if t != 0]
        if is_acc:
            return bytes(out) if not row else None
        if len(row) != 1 or row[0][0] != row[0][1]:
            return None
        out.append(row[0][0])
        q = row[0][2]


def shortest_accepted(aut, lexeme=None):
    from collections import deque
    dq = deque([(aut.init, b"")])
    seen = {aut.init}
    while dq:
        q, s = dq.popleft()
        if q != 0 and (bool(aut.acc[q]) if lexeme is None else lexeme in aut.acc[q]):
            return s
        for lo, hi, t in aut.rows[q]:
            if t != 0 and t not in seen:
                seen.add(t)
                b = lo
                # prefer printable ascii representatives
                for cand in range(lo, hi + 1):
                    if 0x21 <= cand <= 0x7e:
                        b = cand
                        break
                dq.append((t, s + bytes([b])))
    return None
