"""Generic driver for a property decided (partly) by Kani harnesses: run, judge, replay, report."""
import os
import re

from . import e1
from .common import (EXIT_INCONCLUSIVE, EXIT_OK, EXIT_VIOLATION, Timer, log, match_known, known_for, save_replay)

MEMSAFE_PAT = re.compile(r"pointer|dereference|memcpy|memmove|memset|out of bounds|dead object|deallocated|invalid|misaligned|index out of bounds", re.I)


class E1Outcome:
    def __init__(self):
        self.violations = []      # [{key, harness, failed, replay_path, known}]
        self.known = []
        self.inconclusive = []    # [reason]
        self.results = {}         # harness -> HarnessResult
        self.wall = 0.0
        self.kani_runs = []

    def exit_code(self):
        if any((not v.get("known")) and v.get("replay") for v in self.violations):
            return EXIT_VIOLATION
        if self.inconclusive or any(not v.get("known") for v in self.violations):
            return EXIT_INCONCLUSIVE
        return EXIT_OK


def finding_key(harness_short, failed):
    """role-based key: harness + source function + check class (never a line number)"""
    if not failed:
        return "%s|?|?" % harness_short
    f = failed[0]
    fn = (f.get("function") or "?").split("::<")[0]
    fn = re.sub(r"<.*?>", "", fn)
    desc = f.get("description") or ""
    desc = re.sub(r"\d+", "N", desc)[:80]
    return "%s|%s|%s" % (harness_short, fn, desc)


def judge(prop, overlay, package, harness_specs, results, outcome, do_playback=True, release_too=False, max_playbacks=2):
    """harness_specs: list of dict(name=<full id>, expect='pass'|'fail', note=...)"""
    # cheapest failing harnesses first: only the first `max_playbacks` distinct findings are replayed (each replay re-runs CBMC)
    def _dur(hs):
        r = results.get(hs["name"])
        return r.duration_s if r is not None else 0
    harness_specs = sorted(harness_specs, key=_dur)
    played = set()
    for hs in harness_specs:
        name = hs["name"]
        r = results.get(name)
        outcome.results[name] = r
        if r is None or r.status == "missing":
            outcome.inconclusive.append("harness %s: no result (timeout / out of memory / crash)" % name)
            continue
        if hs.get("expect", "pass") == "fail":
            # vacuity witness: must be refuted inside the harness itself
            if r.status != "Failure" or not r.failed:
                outcome.inconclusive.append("witness harness %s was NOT refuted: the family is vacuous or broken" % name)
            continue
        if r.status == "Success":
            if r.covers_sat != r.covers_total:
                outcome.inconclusive.append("harness %s: cover witnesses unsatisfied: %s" % (name, r.covers_unsat[:3]))
            if r.undetermined:
                outcome.inconclusive.append("harness %s: %d undetermined checks" % (name, r.undetermined))
            continue
        # Failure
        if not r.failed:
            outcome.inconclusive.append("harness %s: FAILED without a failed check (solver error / resource limit)" % name)
            continue
        real_failed = [f for f in r.failed if "unwinding assertion" not in (f.get("description") or "")]
        if not real_failed:
            outcome.inconclusive.append("harness %s: unwinding assertion failed (bound too small for this code): %s" % (name, r.failed[0]))
            continue
        key = finding_key(r.short, real_failed)
        known = match_known(prop, key)
        pb = None
        memsafe = any(MEMSAFE_PAT.search(f.get("description") or "") for f in real_failed)
        fam_key = key.split("|", 1)[1] if "|" in key else key
        skip_pb = fam_key in played or len(played) >= max_playbacks
        if do_playback and not known and skip_pb:
            outcome.violations.append(dict(key=key, harness=name, failed=real_failed[:3], known=False, replay=None, reproduced=None,
                                           note="same failed check as an already replayed harness of this run; not replayed again", secondary=True))
            continue
        if do_playback and not known:
            played.add(fam_key)
            try:
                pb = e1.playback(overlay, package, name, release_too=release_too)
            except Exception as ex:  # noqa
                pb = dict(reproduced=None, test="", log="playback error: %r" % ex)
        payload = dict(property=prop, engine="E1/Kani", harness=name, package=package, key=key, failed_checks=real_failed[:10],
                       playback=pb, how_to_replay="./check replay %s  (rebuilds the overlay from /repo, re-runs the harness with "
                       "concrete playback and executes the generated unit test natively)" % prop)
        if known:
            outcome.known.append(dict(key=key, harness=name, what=known.get("what")))
            outcome.violations.append(dict(key=key, harness=name, failed=real_failed[:3], known=True))
            continue
        reproduced = pb and pb.get("reproduced")
        if reproduced or (memsafe and pb is not None and pb.get("reproduced") is not None) or (memsafe and not do_playback):
            payload["classification"] = "reproduced natively" if reproduced else "CBMC memory-safety diagnosis (undefined behaviour that a native run does not observe)"
            rp = save_replay(prop, r.short, payload)
            outcome.violations.append(dict(key=key, harness=name, failed=real_failed[:3], known=False, replay=rp,
                                           reproduced=bool(reproduced)))
        elif not do_playback:
            rp = save_replay(prop, r.short, payload)
            outcome.violations.append(dict(key=key, harness=name, failed=real_failed[:3], known=False, replay=rp, reproduced=None))
        else:
            save_replay(prop, r.short + ".nonrepro", payload)
            outcome.inconclusive.append("harness %s: counterexample did not reproduce natively (%s): encoding problem?" % (name, key))


def summarize(outcome):
    rs = [r for r in outcome.results.values() if r is not None]
    return dict(
        harnesses_run=len(rs),
        harnesses_success=sum(1 for r in rs if r.status == "Success"),
        harnesses_with_all_covers=sum(1 for r in rs if r.status == "Success" and r.covers_total > 0 and r.covers_sat == r.covers_total),
        cbmc_checks=sum(r.checks_total for r in rs),
        covers_satisfied=sum(r.covers_sat for r in rs),
        covers_total=sum(r.covers_total for r in rs),
        solver_s=round(sum(r.solver_s for r in rs), 2),
        symex_s=round(sum(r.symex_s for r in rs), 2),
        per_harness=[r.to_json() for r in rs],
    )


def finish(prop, outcome, timer, level, coverage, assumptions, extra=None):
    """Print verdict lines, write evidence, return exit code."""
    from .common import write_evidence
    code = outcome.exit_code()
    nviol = sum(1 for v in outcome.violations if not v.get("known") and v.get("replay"))
    for k in outcome.known:
        print("KNOWN-FINDING: property=%s %s (%s)" % (prop, k.get("what") or k.get("key"), k.get("key")))
    for v in outcome.violations:
        if not v.get("known") and v.get("replay"):
            print("VIOLATION property=%s replay=%s" % (prop, v.get("replay")))
            log("  violated:", v.get("key"), v.get("failed"))
        elif not v.get("known"):
            log("  also failing (not replayed separately):", v.get("key"))
    for r in outcome.inconclusive:
        log("INCONCLUSIVE:", r)
    coverage = dict(coverage)
    coverage["inconclusive"] = outcome.inconclusive[:20]
    coverage["known_findings_reported"] = [k.get("key") for k in outcome.known]
    write_evidence(prop, level, coverage, timer.s(), nviol, assumptions, extra)
    if code == EXIT_OK:
        print("OK property=%s tier=%s (%.0fs)" % (prop, coverage.get("tier", ""), timer.s()))
    elif code == EXIT_INCONCLUSIVE:
        print("INCONCLUSIVE property=%s (exit 2): %d reasons, first: %s" % (prop, len(outcome.inconclusive), outcome.inconclusive[0][:300]))
    return code


def run_parser_groups(prop, tag, mods, spec_list, outcome, jobs=12, harness_timeout_s=600, mem_gb=16):
    """Kani run over the llguidance crate overlay for the given harness modules. Adds to `outcome`; returns summary dict."""
    from . import parser_props as pp
    import os
    only = [x for x in os.environ.get("VERIF_ONLY", "").split(",") if x]
    if only:
        # development / seeded-change evaluation: restrict the run to the named harnesses (the registered commands never set this)
        spec_list = [s for s in spec_list if any(o in s["name"] for o in only)]
        log("VERIF_ONLY: %d harnesses selected" % len(spec_list))
    try:
        ov = pp.prepare(tag, mods)
    except (pp.SliceError, FileNotFoundError) as ex:
        outcome.inconclusive.append("overlay/slice preparation failed (source anchors moved?): %s" % ex)
        return dict(kani_wall_s=0)
    try:
        names = [s["name"] for s in spec_list]
        res, logp, wall, build_failed = e1.run_kani(ov, "llguidance", names, jobs=jobs, harness_timeout_s=harness_timeout_s, stubbing=True, logname=tag, mem_gb=mem_gb)
        if build_failed:
            import subprocess
            tail = subprocess.run("grep -v '^warning' %s | grep -A8 '^error' | head -60" % logp, shell=True, capture_output=True, text=True).stdout
            outcome.inconclusive.append("kani build failed (harness no longer compiles against /repo?):\n" + tail)
        else:
            judge(prop, ov, "llguidance", spec_list, res, outcome)
        return dict(kani_wall_s=round(wall, 1))
    finally:
        ov.cleanup()


def run_toktrie_groups(prop, tag, want, outcome, with_svob=False, extra_specs=None, jobs=14, harness_timeout_s=600, select=None, tokenv=False, chop=False):
    from . import toktrie_props as tp
    import os
    from .common import VERIF
    try:
        ov, fams, dumped, inst = tp.prepare_overlay(tag, want, with_svob=with_svob)
    except RuntimeError as ex:
        outcome.inconclusive.append(str(ex)[:2000])
        return dict(kani_wall_s=0), []
    try:
        specs = list(inst.specs)
        if select is not None:
            specs = [s for s in specs if select(s)]
        if with_svob:
            specs = tp.svob_specs(tier_name()) + specs
        if tokenv:
            ov.inject("toktrie/src/tokenv.rs", os.path.join(VERIF, "kani/toktrie/tokenv_h.rs"), "verif_kani")
            specs += [dict(name="tokenv::verif_kani::k19_2_parse_numeric_roundtrip", expect="pass", family="K19.2"),
                      dict(name="tokenv::verif_kani::c20_parse_numeric_arbitrary", expect="pass", family="C20")]
        if chop:
            try:
                tp.inject_chop(ov)
                specs += tp.CHOP_SPECS
            except tp.ChopSliceError as ex:
                outcome.inconclusive.append("chop_tokens slice: %s" % ex)
        if extra_specs:
            specs += extra_specs
        res, logp, wall, build_failed = e1.run_kani(ov, "toktrie", [s["name"] for s in specs], jobs=jobs, harness_timeout_s=harness_timeout_s, logname=tag)
        if build_failed:
            import subprocess
            tail = subprocess.run("grep -v '^warning' %s | grep -A8 '^error' | head -60" % logp, shell=True, capture_output=True, text=True).stdout
            outcome.inconclusive.append("kani build failed (harness no longer compiles against /repo?):\n" + tail)
        else:
            judge(prop, ov, "toktrie", specs, res, outcome)
        return dict(kani_wall_s=round(wall, 1)), [f for f in fams if not f.get("is_sb")]
    finally:
        ov.cleanup()


def run_svob_only(prop, tag, names, outcome, jobs=8, harness_timeout_s=600):
    """the SimpleVob harnesses alone (no trie tables): used by properties whose mask bits are set through allow_range"""
    from . import toktrie_props as tp
    import os
    from .common import VERIF
    ov = e1.Overlay(tag)
    try:
        ov.inject("toktrie/src/svob.rs", os.path.join(VERIF, "kani/toktrie/svob_h.rs"), "verif_kani")
        specs = [dict(name=tp.SVOB_MOD + n, expect="pass", family="K16.1") for n in names]
        specs.append(dict(name=tp.SVOB_MOD + "k16_1_witness_must_fail", expect="fail", family="K16.1"))
        res, logp, wall, build_failed = e1.run_kani(ov, "toktrie", [s["name"] for s in specs], jobs=jobs, harness_timeout_s=harness_timeout_s, logname=tag)
        if build_failed:
            import subprocess
            tail = subprocess.run("grep -v '^warning' %s | grep -A8 '^error' | head -60" % logp, shell=True, capture_output=True, text=True).stdout
            outcome.inconclusive.append("kani build failed (harness no longer compiles against /repo?):\n" + tail)
        else:
            judge(prop, ov, "toktrie", specs, res, outcome)
        return dict(kani_wall_s=round(wall, 1)), specs
    finally:
        ov.cleanup()


def tier_name():
    from .common import tier
    return tier()


def e1_coverage(outcome, samples, functions, bounds, extra=None):
    summ = summarize(outcome)
    cov = dict(
        evaluations=max(1, summ["harnesses_run"]),
        distinct_nontrivial=summ["harnesses_with_all_covers"],
        rule="one evaluation = one Kani proof harness decided by CBMC over all symbolic inputs within its bound; non-trivial = SUCCESSFUL with every "
             "kani::cover! witness SATISFIED (must-fail witness harnesses count as run only)",
        samples=samples,
        functions_encoded=functions, bounds=bounds, queries=summ["cbmc_checks"], covers="%d/%d" % (summ["covers_satisfied"], summ["covers_total"]),
        solver_s=summ["solver_s"], symex_s=summ["symex_s"], per_harness=summ["per_harness"],
    )
    if extra:
        cov.update(extra)
    return cov
