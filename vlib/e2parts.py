"""Small E2 obligations over exported lexer automata shared by C13 (lexer hint soundness) and C19 (marker byte dead in text lexemes)."""
import random
import time

import z3

from . import e2, jsgen, larkgen, p_c04, p_c08
from .automaton import Aut


def corpus(tr, sd, with_special=False):
    rng = random.Random(1300 + sd)
    q = tr == "quick"
    cases = []
    for c in p_c04.gen_cases("quick", sd)[: (70 if q else 240)]:
        cases.append(dict(kind=c["kind"], text=c["text"], family="regex", has_not=_has_not(c["node"])))
    for t in p_c08.gen_tuples("quick", sd)[:: (8 if q else 2)]:
        cases.append(dict(kind="json", schema=p_c08.make_schema(t), family="number"))
    for _ in range(25 if q else 200):
        cases.append(dict(kind="json", schema=jsgen.gen_case(rng), family="json"))
    for s in [{"type": "string"}, {"type": "string", "maxLength": 3}, {"type": "string", "format": "date"}, {"type": "string", "pattern": "^[a-z]+$"},
              {"type": "object", "properties": {"name": {"type": "string"}, "kind": {"enum": ["alpha", "alpine", "beta"]}, "id": {"const": "fixed-value"}}, "required": ["name", "kind", "id"], "additionalProperties": False},
              {"enum": ["foo", "foobar", "fob"]}]:
        cases.append(dict(kind="json", schema=s, family="json"))
    for _ in range(15 if q else 100):
        cases.append(dict(kind="lark", text=larkgen.gen_grammar(rng, attrs=False)["text"], family="lark"))
    if with_special:
        for t in ['start: "a" <|user|> "b"\n', 'start: /[a-z]+/ <[300]> /x*/\n', 'start: "<|user|>" /.*/\n', 'start: TEXT <|end|>\nTEXT: /[^<]*/\n']:
            cases.append(dict(kind="lark", text=t, family="special"))
    return cases


def _has_not(node):
    if node.kind == "not":
        return True
    for x in getattr(node, "xs", []) or []:
        if _has_not(x):
            return True
    if hasattr(node, "x"):
        return _has_not(node.x)
    return False


def export(cases, joint=True):
    jobs = []
    for c in cases:
        j = dict(op="compile", kind=c["kind"], want=["lexemes", "automata"], max_states=1500)
        if joint:
            j["lexeme_sets"] = "single+all"
        if c["kind"] == "json":
            j["schema"] = c["schema"]
        else:
            j["text"] = c["text"]
        jobs.append(j)
    return e2.run_jobs(jobs)


def _byte_in_row(b, row, pred):
    """z3 formula: the transition of byte b according to row satisfies pred(target) (pred on concrete targets; dead = 0)"""
    parts = []
    covered = []
    for lo, hi, t in row:
        rng = z3.And(z3.UGE(b, lo), z3.ULE(b, hi)) if lo != hi else b == lo
        covered.append(rng)
        if pred(t):
            parts.append(rng)
    if pred(0):
        parts.append(z3.Not(z3.Or(*covered)) if covered else z3.BoolVal(True))
    return z3.Or(*parts) if parts else z3.BoolVal(False)


def hint_query(aut):
    """sat <=> some state's next-byte hint contradicts the transition table (for a symbolic state and byte)"""
    b = z3.BitVec("b", 8)
    sel = [z3.Bool("q%d" % q) for q in range(aut.n)]
    s = z3.Solver()
    bad = []
    for q in range(1, aut.n):
        nb = aut.nb[q]
        if not isinstance(nb, dict):
            continue
        k = nb.get("k")
        if k == "ForcedByte":
            c = nb["b"][0]
            # any other byte, or end of input, leads to a dead state
            alive_other = z3.And(b != c, _byte_in_row(b, aut.rows[q], lambda t: t != 0))
            viol = z3.Or(alive_other, z3.BoolVal(bool(aut.acc[q])))
            bad.append(z3.And(sel[q], viol))
        elif k == "ForcedEOI":
            bad.append(z3.And(sel[q], _byte_in_row(b, aut.rows[q], lambda t: t != 0)))
        elif k == "Dead":
            bad.append(sel[q])
    if not bad:
        return None, 0
    s.add(z3.Or(*bad))
    r = s.check()
    if r == z3.sat:
        m = s.model()
        q = [q for q in range(1, aut.n) if z3.is_true(m.eval(sel[q], model_completion=True))]
        return dict(state=q[0] if q else None, byte=m.eval(b, model_completion=True).as_long(), hint=aut.nb[q[0]] if q else None), len(bad)
    return (None if r == z3.unsat else "unknown"), len(bad)


def marker_query(aut):
    """sat <=> some reachable state survives the marker byte 0xFF"""
    sel = [z3.Bool("q%d" % q) for q in range(aut.n)]
    alive = []
    for q in range(1, aut.n):
        if aut.step(q, 0xFF) != 0:
            alive.append(sel[q])
    s = z3.Solver()
    s.add(z3.Or(*alive) if alive else z3.BoolVal(False))
    r = s.check()
    if r == z3.sat:
        m = s.model()
        q = [q for q in range(1, aut.n) if z3.is_true(m.eval(sel[q], model_completion=True))]
        return q[0]
    return None if r == z3.unsat else "unknown"
