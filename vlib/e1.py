"""E1 — Kani/CBMC over the real code through an overlay copy of /repo.

The overlay is an rsync of /repo's *current working tree* into a scratch directory outside
/repo and /verif; harness sources from /verif/kani/... are added as child modules
(`#[cfg(kani)] mod verif_kani;`) of the files whose private items they need.  Nothing in
/repo is modified.  One `cargo kani` invocation per crate verifies a list of harnesses in
parallel and exports a JSON report which is parsed here.
"""
import json
import os
import re
import subprocess
import time

from .common import (CACHE, REPO, VERIF, base_env, log, new_scratch, rm_scratch)

KANI_FEATURES = {
    "toktrie": [],
    "llguidance": ["--no-default-features", "--features", "lark"],
}


class Overlay:
    def __init__(self, tag):
        self.dir = new_scratch(tag)
        subprocess.run(
            ["rsync", "-a", "--exclude", "/target", "--exclude", ".git", REPO + "/", self.dir + "/"],
            check=True)
        self.injected = []

    def path(self, *p):
        return os.path.join(self.dir, *p)

    def inject(self, rel_src, harness_file, modname, cfg="kani"):
        """Append `#[cfg(<cfg>)] mod <modname>;` to rel_src and copy harness_file next to it."""
        src = self.path(rel_src)
        if not os.path.exists(src):
            raise FileNotFoundError(src)
        dst_name = "verif_%s_%s.rs" % (os.path.basename(src)[:-3], modname)
        dst = os.path.join(os.path.dirname(src), dst_name)
        with open(harness_file) as f:
            body = expand_inst(f.read())
        with open(dst, "w") as f:
            f.write(body)
        with open(src, "a") as f:
            f.write('\n#[cfg(%s)]\n#[path = "%s"]\nmod %s;\n' % (cfg, dst_name, modname))
        self.injected.append((rel_src, modname, dst))
        return dst

    def write(self, rel, text):
        p = self.path(rel)
        os.makedirs(os.path.dirname(p), exist_ok=True)
        with open(p, "w") as f:
            f.write(text)
        return p

    def cleanup(self):
        rm_scratch(self.dir)


def expand_inst(body):
    """`inst!(name, func, unwind, g1, g2, ..);` lines are expanded textually into explicit harness functions (Kani's concrete
    playback writes its unit test next to the harness item, which does not work for items produced by macro_rules)."""
    body = re.sub(r"macro_rules! inst \{.*?\n\}\n", "", body, flags=re.S)

    def rep(m):
        args = [a.strip() for a in m.group(1).split(",")]
        name, func, unwind, gens = args[0], args[1], args[2], args[3:]
        g = "::<%s>" % ", ".join(gens) if gens else ""
        return "#[kani::proof]\n#[kani::unwind(%s)]\nfn %s() {\n    %s%s();\n}\n" % (unwind, name, func, g)
    return re.sub(r"^inst!\((.*?)\);\s*$", rep, body, flags=re.M)


class HarnessResult:
    def __init__(self, hid):
        self.id = hid
        self.status = "missing"      # Success | Failure | missing
        self.failed = []             # [{function, description, category, file, line}]
        self.covers_total = 0
        self.covers_sat = 0
        self.covers_unsat = []
        self.undetermined = 0
        self.checks_total = 0
        self.solver_s = 0.0
        self.symex_s = 0.0
        self.duration_s = 0.0
        self.unwind_failed = False

    @property
    def short(self):
        return self.id.split("::")[-1]

    def to_json(self):
        return dict(harness=self.id, status=self.status, checks=self.checks_total, covers="%d/%d" % (self.covers_sat, self.covers_total),
                    solver_s=round(self.solver_s, 2), duration_s=round(self.duration_s, 2), failed=self.failed[:5])


def _parse_report(path, wanted):
    res = {h: HarnessResult(h) for h in wanted}
    if not os.path.exists(path):
        return res
    with open(path) as f:
        d = json.load(f)
    for st in d.get("cbmc", []):
        r = res.get(st.get("harness_id"))
        if r is None:
            continue
        cs = st.get("cbmc_stats") or {}
        r.solver_s = float(cs.get("runtime_decision_procedure_s") or cs.get("runtime_solver_s") or 0.0)
        r.symex_s = float(cs.get("runtime_symex_s") or 0.0)
    for hr in (d.get("verification_results") or {}).get("results", []):
        r = res.get(hr.get("harness_id"))
        if r is None:
            continue
        r.status = hr.get("status", "missing")
        r.duration_s = (hr.get("duration_ms") or 0) / 1000.0
        for c in hr.get("checks", []):
            st = (c.get("status") or "").upper()
            desc = c.get("description") or ""
            if desc.startswith("cover condition") or st in ("SATISFIED", "UNSATISFIABLE", "COVERED", "UNCOVERED"):
                r.covers_total += 1
                if st == "SATISFIED":
                    r.covers_sat += 1
                else:
                    r.covers_unsat.append(desc)
                continue
            r.checks_total += 1
            if st == "FAILURE":
                loc = c.get("location") or {}
                r.failed.append(dict(function=c.get("function"), description=desc, category=c.get("category"),
                                     file=loc.get("file"), line=loc.get("line")))
                if "unwinding assertion" in desc:
                    r.unwind_failed = True
            elif st in ("UNDETERMINED", "ERROR"):
                r.undetermined += 1
    return res


def run_kani(overlay, package, harnesses, jobs=8, harness_timeout_s=900, stubbing=False, mem_gb=16, logname="kani", batch=48):
    """Run `cargo kani -p <package>` for the listed fully-qualified harness names (in batches: the kani driver keeps every CBMC
    report in memory and would exceed the per-process memory limit with hundreds of harnesses).
    Returns (dict harness -> HarnessResult, log_path, wall_s, build_failed)."""
    all_res = {}
    t_all = time.time()
    build_failed = False
    logp = overlay.path("kani_%s.log" % logname)
    open(logp, "w").close()
    chunks = [harnesses[i:i + batch] for i in range(0, len(harnesses), batch)] or [[]]
    for ci, hs in enumerate(chunks):
        if not hs:
            continue
        report = overlay.path("kani_report_%s_%d.json" % (logname, ci))
        if os.path.exists(report):
            os.remove(report)
        cmd = ["cargo", "kani", "-p", package, "-Z", "unstable-options"]
        if stubbing:
            cmd += ["-Z", "stubbing"]
        cmd += KANI_FEATURES.get(package, [])
        for h in hs:
            cmd += ["--harness", h]
        cmd += ["--exact", "-j", str(max(1, min(jobs, len(hs)))), "--output-format", "terse",
                "--harness-timeout", "%ds" % harness_timeout_s, "--export-json", report]
        sh = "ulimit -s unlimited 2>/dev/null; ulimit -v %d; exec %s" % (mem_gb * 1024 * 1024, " ".join(_q(c) for c in cmd))
        with open(logp, "a") as lf:
            subprocess.run(["bash", "-c", sh], cwd=overlay.dir, env=base_env(), stdout=lf, stderr=subprocess.STDOUT)
        if not os.path.exists(report):
            # a build failure (or a crashed driver) leaves no report at all
            build_failed = True
            break
        all_res.update(_parse_report(report, hs))
    for h in harnesses:
        all_res.setdefault(h, HarnessResult(h))
    return all_res, logp, time.time() - t_all, build_failed


def _q(s):
    if re.match(r"^[A-Za-z0-9_@%+=:,./-]+$", s):
        return s
    return "'" + s.replace("'", "'\\''") + "'"


def playback(overlay, package, harness, release_too=False):
    """Concrete playback of a failing harness: asks Kani for the counterexample as a unit test (added in place in the
    overlay copy), then runs that unit test natively. Returns dict(reproduced=bool|None, test=<source text>, log=<tail>)."""
    env = base_env()
    pre = {}
    pkgdir = overlay.path("toktrie" if package == "toktrie" else "parser", "src")
    for root, _d, files in os.walk(pkgdir):
        for fn in files:
            if fn.endswith(".rs"):
                p = os.path.join(root, fn)
                pre[p] = open(p).read()
    cmd = ["cargo", "kani", "-p", package, "-Z", "concrete-playback", "--concrete-playback=inplace"] + KANI_FEATURES.get(package, []) + \
          ["--harness", harness, "--exact"]
    sh = "ulimit -s unlimited 2>/dev/null; exec " + " ".join(_q(c) for c in cmd)
    p1 = subprocess.run(["bash", "-c", sh], cwd=overlay.dir, env=env, capture_output=True, text=True)
    test_src = ""
    test_names = []
    blk = re.compile(r"/// Test generated for harness.*?\n#\[test\]\nfn (kani_concrete_playback_\w+)\(\) \{.*?\n\}\n", re.S)
    for p, old in pre.items():
        new = open(p).read()
        if new != old:
            # Kani names a generated test after a hash of its concrete values: two checks with the same values give two
            # definitions of one name, which does not compile. Keep the first of each name.
            seen = set()

            def _dedupe(m):
                if m.group(1) in seen:
                    return ""
                seen.add(m.group(1))
                return m.group(0)
            deduped = blk.sub(_dedupe, new)
            if deduped != new:
                open(p, "w").write(deduped)
                new = deduped
            if new.startswith(old):
                test_src += new[len(old):]
            else:
                k = new.find("/// Test generated for harness")
                test_src += new[k:] if k >= 0 else new[-3000:]
            test_src = test_src[:6000]
            test_names += re.findall(r"fn (kani_concrete_playback_\w+)", new)
    if not test_names:
        return dict(reproduced=None, test="", log=(p1.stdout + p1.stderr)[-3000:])
    out = {}
    ok_any = False
    for prof in (["dev"] + (["release"] if release_too else [])):
        cmd2 = ["cargo", "kani", "playback", "-p", package, "--lib", "-Z", "concrete-playback"] + KANI_FEATURES.get(package, [])
        if prof == "release":
            cmd2 += ["--release"]
        # Kani emits one unit test per failed check AND per satisfied cover of the harness: run them all, any failure reproduces
        cmd2 += ["--", "kani_concrete_playback_" + harness.split("::")[-1] + "_"]
        env2 = dict(env)
        # dependency builds of the playback unit test are shared between runs (the overlay's own crates are rebuilt)
        env2["CARGO_TARGET_DIR"] = os.path.join(CACHE, "playback-target")
        p2 = subprocess.run(cmd2, cwd=overlay.dir, env=env2, capture_output=True, text=True)
        txt = p2.stdout + p2.stderr
        failed = bool(re.search(r"test result: FAILED", txt))
        passed = bool(re.search(r"test result: ok\. [1-9]\d* passed", txt))
        out[prof] = "fails" if failed else ("passes" if passed else "error")
        if failed:
            ok_any = True
        out[prof + "_log"] = txt[-1500:]
    if not ok_any and all(out.get(pf) == "error" for pf in out if not pf.endswith("_log")):
        # the generated unit test did not build or run: nothing is known about reproduction
        return dict(reproduced=None, test=test_src, profiles=out, log=out.get("dev_log", "")[-1500:])
    return dict(reproduced=ok_any, test=test_src, profiles=out, log="")


def native_run(overlay, args, cfgs=(), timeout=1200, cwd=None):
    """cargo <args> in the overlay with extra --cfg flags (native toolchain of the repo)."""
    env = base_env()
    if cfgs:
        env["RUSTFLAGS"] = " ".join("--cfg %s" % c for c in cfgs)
    env["CARGO_TARGET_DIR"] = overlay.path("target_native")
    p = subprocess.run(["cargo"] + args, cwd=cwd or overlay.dir, env=env, capture_output=True, text=True, timeout=timeout)
    return p
