"""./check replay <path> — re-runs a recorded counterexample against /repo's current working tree."""
import json
import sys

from .common import log


def main(argv):
    if not argv:
        print("usage: ./check replay <replay file>")
        return 2
    with open(argv[0]) as f:
        p = json.load(f)
    prop = p.get("property")
    print("replaying", argv[0], "property", prop)
    if p.get("engine", "").startswith("E1") or "harness" in p:
        return replay_e1(p)
    return replay_e2(p)


def replay_e1(p):
    from . import e1, parser_props as pp, toktrie_props as tp
    harness, package = p["harness"], p.get("package", "toktrie")
    if package == "toktrie":
        ov, fams, dumped, inst = tp.prepare_overlay("replay", {"walk", "hasext", "c02", "roundtrip", "toklen"})
    else:
        mod = [m for m, (rel, hf, pre) in pp.MODS.items() if harness.startswith(pre)]
        ov = pp.prepare("replay", mod or list(pp.MODS))
    try:
        r = e1.playback(ov, package, harness, release_too=True)
        print(json.dumps({k: v for k, v in r.items() if k != "test"}, indent=1)[:3000])
        print(r.get("test", "")[:3000])
        if r.get("reproduced"):
            print("REPRODUCED: the generated unit test fails natively on the current tree")
            return 1
        print("not reproduced on the current tree (fixed, or the harness passes)")
        return 0
    finally:
        ov.cleanup()


def replay_e2(p):
    from . import e2
    case = p.get("case") or {}
    if p.get("key") == "sliced-mask-differs":
        ce = p["counterexample"]
        j = dict(op="maskdiff", slices=case["slices"], bytes=ce.get("path") or [], tokens=[ce["bytes"]])
        if "schema" in case:
            j.update(kind="json", schema=case["schema"])
        else:
            j.update(kind="lark", text=case["text"])
        r = e2.run_jobs([j])[0]
        print("engine with slices vs engine without, after the byte prefix %r, vocabulary = single bytes + token %r:" % (bytes(ce.get("path") or []), bytes(ce["bytes"])))
        print(json.dumps({k: r.get(k) for k in ("ok", "diff", "slices_applied", "error")}, default=str)[:800])
        if r.get("ok") and r.get("diff"):
            print("REPRODUCED: the masks differ on the current tree")
            return 1
        print("not reproduced on the current tree (masks agree)")
        return 0
    kind = "json" if ("schema" in p or "schema" in case) else (p.get("grammar_kind") or case.get("kind") or "lark")
    job = dict(op="replay", kind=kind)
    if kind == "json":
        job["schema"] = p.get("schema") or case.get("schema")
    else:
        job["text"] = p.get("text") if p.get("grammar_kind") else (p.get("grammar") or case.get("text") or p.get("text"))
    bs = None
    for k in ("bytes",):
        if k in p:
            bs = p[k]
    if bs is None and "literal" in p:
        bs = list(p["literal"].encode())
    if bs is None and "text" in p and kind == "json":
        bs = list(p["text"].encode())
    if bs is None and isinstance(p.get("counterexample"), dict):
        ce = p["counterexample"]
        bs = ce.get("bytes") or (list(ce["text"].encode()) if "text" in ce else None)
    if bs is None and isinstance(p.get("trap"), dict):
        bs = p["trap"].get("path")
    if bs is None:
        print("this replay file records a table-level counterexample (grammar export); re-run the check itself to re-export and re-judge it:")
        print(json.dumps(p, indent=1, default=str)[:3000])
        return 0
    job["bytes"] = bs
    r = e2.run_jobs([job])[0]
    print("engine on the current tree:", json.dumps({k: r.get(k) for k in ("ok", "consumed", "all", "accepting", "stopped", "error")}, default=str)[:600])
    print("recorded expectation:", {k: p.get(k) for k in ("engine_accepts", "oracle_accepts", "difference", "jsonschema_valid", "kind", "note") if k in p})
    return 0
