"""C10 — slicing never changes a mask (containment half). E2: for every (lexer state, slice) for which the real check_subsume says
'contained', the solver looks for a byte string of the slice language that kills the lexeme automaton from that state."""
import json
import random
import time

import z3

from . import e2
from .automaton import Aut, SymString, encode_run, merge_classes, model_bytes, state_in
from .common import (EXIT_INCONCLUSIVE, EXIT_OK, EXIT_VIOLATION, Timer, log, match_known, save_replay, seed, settle, tier, write_evidence)

SLICE_LISTS = [
    "general",
    ["[a-z]+", "[a-z]{1,5}", "[0-9]+", "[0-9]{1,3}"],
    [" +", "[^\"\\\\\\x00-\\x1F\\x7F]{1,4}", "[A-Za-z ]{1,12}"],
]


def gen_schemas(tr, sd):
    rng = random.Random(8000 + sd)
    out = []
    pats = ["^[a-z]+$", "^[a-z]{2,8}$", "^[a-z0-9 ]*$", "^x[a-z]*y$", "^[A-Za-z ]{0,20}$", "^[^a]*$", "^(foo|bar)[a-z]*$", "^[0-9]{1,4}$"]
    fmts = ["date", "time", "email", "hostname", "uuid", "ipv4"]
    for _ in range(14 if tr == "quick" else 60):
        s = {"type": "string"}
        r = rng.random()
        if r < 0.4:
            s["maxLength"] = rng.choice([0, 1, 2, 5, 9, 10, 11, 29, 30, 31, 40])
            if rng.random() < 0.5:
                s["minLength"] = rng.randint(0, min(3, s["maxLength"]))
        elif r < 0.7:
            s["pattern"] = rng.choice(pats)
            if rng.random() < 0.4:
                s["maxLength"] = rng.choice([3, 8, 12])
        elif r < 0.85:
            s["format"] = rng.choice(fmts)
        else:
            s = {"enum": rng.sample(["alpha", "alp", "beta", "be ta", "x", "alphabet", "  pad"], 3)}
        form = rng.random()
        if form < 0.5:
            out.append(s)
        elif form < 0.8:
            out.append({"type": "object", "properties": {"name": s, "n": {"type": "integer"}}, "required": ["name"], "additionalProperties": False})
        else:
            out.append({"type": "array", "items": s, "maxItems": 3})
    out.append({"type": "string"})
    out.append({"type": "object", "additionalProperties": {"type": "string", "maxLength": 4}})
    return out


LAZY_RX = ["[a-z]*x", "[a-z ]*;", "(.|\\n)*<end", "[a-z]{0,6}q", "[a-z0-9]*[0-9]"]
GREEDY_RX = ["[a-z0-9]+", "[a-z ]+", "[^!]*", "[a-z]{1,12}", "(.|\\n)*"]
LARK_HAND = [
    # docs/syntax.md: free text interspersed with tool calls (a greedy TEXT and a lazy TEXT "<function" live in one lexer state)
    'start: ( f_foo )* f_end\nf_end: TEXT\nTEXT: /(.|\\n)*/\nf_foo_hd[lazy]: TEXT "<function"\nf_foo: f_foo_hd "=foo>" /[0-9]+/ "</function>"\n',
    'start: (lz | GR) "!"\nlz[lazy]: /[a-z]*x/\nGR: /[a-z0-9]+/\n',
]


def gen_lark(tr, sd):
    """grammars in which a lazy and a greedy lexeme are live in the same lexer state"""
    rng = random.Random(8100 + sd)
    out = list(LARK_HAND)
    for _ in range(6 if tr == "quick" else 40):
        lz, gr = rng.choice(LAZY_RX), rng.choice(GREEDY_RX)
        form = rng.randint(0, 2)
        if form == 0:
            out.append('start: (lz | GR) "!"\nlz[lazy]: /%s/\nGR: /%s/\n' % (lz, gr))
        elif form == 1:
            out.append('start: lz "!" | GR "?"\nlz[lazy]: /%s/\nGR: /%s/\n' % (lz, gr))
        else:
            out.append('start: (lz "=")* GR\nlz[lazy]: /%s/\nGR: /%s/\n' % (lz, gr))
    return out


def _joint(res, L, max_n, out):
    """joint lexer states (several lexemes live): a positive verdict promises that every token of the slice keeps the lexeme going to its
    last byte — the run must not die, and must not pass through a state in which the lexer ends the lexeme at once (a lazy lexeme
    matching, StateDesc::lazy_accepting) before the last byte"""
    slices = [Aut(a, a.get("lexeme")) if "error" not in a else None for a in res["slice_automata"]]
    for ja in res.get("joint_automata") or []:
        if "error" in ja:
            continue
        a = Aut(ja, -1)
        if a.n > max_n:
            out["skipped_big"] += 1
            continue
        out["joint_states"] += a.n
        cut = [q for q in range(1, a.n) if ja["states"][q].get("lazy_acc")]
        out["joint_lazy_live"] += sum(1 for q in range(1, a.n) if ja["states"][q].get("lazy_live"))
        verd = [st.get("verdicts") or [] for st in ja["states"]]
        for j, sa in enumerate(slices):
            if sa is None:
                continue
            qs = set(q for q in range(1, a.n) if len(verd[q]) > j and verd[q][j] is True)
            out["joint_pairs_true"] += len(qs)
            if not qs:
                continue
            classes = merge_classes([a, sa])
            sym = SymString(L)
            c1, s1 = encode_run(a, sym, classes, "l", start_set=qs)
            c2, s2 = encode_run(sa, sym, classes, "s")
            acc_s = [q for q in range(sa.n) if sa.acc[q]]
            s = z3.Solver()
            s.set("timeout", 180000)
            s.add(*c1)
            s.add(*c2)
            alts = []
            for k in range(1, L + 1):
                bad = [s1[k][0]] + [state_in(s1[i], cut) for i in range(1, k) if cut]
                alts.append(z3.And(state_in(s2[k], acc_s), z3.Or(*bad)))
            s.add(z3.Or(*alts))
            t0 = time.time()
            r = s.check()
            out["solver_s"] += time.time() - t0
            out["queries"] += 1
            if r == z3.sat:
                m = s.model()
                bs = model_bytes(m, sym)
                q0 = [q for q in qs if z3.is_true(m.eval(s1[0][q], model_completion=True))][0]
                for k in range(1, L + 1):
                    if not sa.accepts(bs[:k]):
                        continue
                    dead = a.run(bs[:k], q0) == 0
                    early = [i for i in range(1, k) if a.run(bs[:i], q0) in cut]
                    if dead or early:
                        out["joint_cands"].append(dict(set=ja["set"], slice=j, state=q0, bytes=bs[:k], path=path_to(a, q0),
                                                       why="dies" if dead else "lexeme ends after %d of %d bytes" % (early[0], k)))
                        break
                else:
                    out["status"] = "nonrepro"
            elif r != z3.unsat:
                out["status"] = "unknown"


def _work(args):
    idx, res, L, max_n = args
    out = dict(idx=idx, status="ok", queries=0, solver_s=0.0, cands=[], pairs_true=0, pairs_false=0, twins=0, twins_sat=0, states=0, skipped_big=0,
               joint_states=0, joint_pairs_true=0, joint_lazy_live=0, joint_cands=[])
    if not res.get("ok"):
        out["status"] = "compile_error"
        out["note"] = str(res.get("error"))[:200]
        return out
    slices = [Aut(a, a.get("lexeme")) if "error" not in a else None for a in res["slice_automata"]]
    for la in res["lexeme_automata"]:
        if "error" in la:
            out["status"] = "partial"
            continue
        lex = la["lexeme"]
        a = Aut(la, lex)
        if a.n > max_n:
            out["skipped_big"] += 1
            continue
        out["states"] += a.n
        verd = [st.get("verdicts") or [] for st in la["states"]]
        for j, sa in enumerate(slices):
            if sa is None:
                continue
            q_true = set(q for q in range(1, a.n) if len(verd[q]) > j and verd[q][j] is True)
            q_false = set(q for q in range(1, a.n) if len(verd[q]) > j and verd[q][j] is False)
            out["pairs_true"] += len(q_true)
            out["pairs_false"] += len(q_false)
            for (qs, is_twin) in ((q_true, False), (q_false, True)):
                if not qs:
                    continue
                if is_twin and (out["twins"] >= 1 or len(qs) > 40):
                    continue
                classes = merge_classes([a, sa])
                sym = SymString(L)
                c1, s1 = encode_run(a, sym, classes, "l", start_set=qs)
                c2, s2 = encode_run(sa, sym, classes, "s")
                acc_s = [q for q in range(sa.n) if sa.acc[q]]
                s = z3.Solver()
                s.set("timeout", 180000)
                s.add(*c1)
                s.add(*c2)
                s.add(z3.Or(*[z3.And(state_in(s2[k], acc_s), s1[k][0]) for k in range(1, L + 1) if not z3.is_false(s1[k][0])] or [z3.BoolVal(False)]))
                t0 = time.time()
                r = s.check()
                out["solver_s"] += time.time() - t0
                out["queries"] += 1
                if is_twin:
                    out["twins"] += 1
                    out["twins_sat"] += (r == z3.sat)
                    continue
                if r == z3.sat:
                    m = s.model()
                    bs = model_bytes(m, sym)
                    q0 = [q for q in qs if z3.is_true(m.eval(s1[0][q], model_completion=True))][0]
                    # concrete confirmation on the exported tables: shortest prefix accepted by the slice and dead for the lexeme
                    for k in range(1, L + 1):
                        if sa.accepts(bs[:k]) and a.run(bs[:k], q0) == 0:
                            out["cands"].append(dict(lexeme=lex, slice=j, state=q0, bytes=bs[:k]))
                            break
                    else:
                        out["status"] = "nonrepro"
                elif r != z3.unsat:
                    out["status"] = "unknown"
    _joint(res, L, max_n, out)
    return out


def path_to(aut, target):
    from collections import deque
    dq = deque([(aut.init, [])])
    seen = {aut.init}
    while dq:
        q, p = dq.popleft()
        if q == target:
            return p
        for lo, hi, t in aut.rows[q]:
            if t != 0 and t not in seen:
                seen.add(t)
                dq.append((t, p + [lo]))
    return None


def run():
    from concurrent.futures import ProcessPoolExecutor
    tm = Timer()
    tr, sd, prop = tier(), seed(), "C10"
    L = 12 if tr == "quick" else 20
    schemas = gen_schemas(tr, sd)
    cases = []
    for s in schemas:
        for sl in (SLICE_LISTS if tr != "quick" else SLICE_LISTS[:2]):
            cases.append(dict(schema=s, slices=sl))
    for t in gen_lark(tr, sd):
        for sl in SLICE_LISTS[1:]:
            cases.append(dict(text=t, slices=sl))
    inconclusive = []
    try:
        jobs = [dict(op="subsume", kind="json", schema=c["schema"], slices=c["slices"], max_states=500, budget=1000, joint=True) if "schema" in c else
                dict(op="subsume", kind="lark", text=c["text"], slices=c["slices"], max_states=500, budget=1000, joint=True) for c in cases]
        results = e2.run_jobs(jobs, chunk=4)
    except RuntimeError as ex:
        write_evidence(prop, "translation_validation", dict(evaluations=1, distinct_nontrivial=0, samples=["exporter build failed"]), tm.s(), 0, [])
        print("INCONCLUSIVE property=%s: %s" % (prop, str(ex)[:500]))
        return EXIT_INCONCLUSIVE
    stats = dict(cases=len(cases), compiled=0, queries=0, solver_s=0.0, pairs_true=0, pairs_false=0, twins=0, twins_sat=0, states=0, skipped_big=0,
                 joint_states=0, joint_pairs_true=0, joint_lazy_live=0, joint_unconfirmed=0)
    viol = []
    jcands = []
    samples = []
    with ProcessPoolExecutor(max_workers=14) as ex:
        for o in ex.map(_work, [(i, results[i], L, 160 if tr == "quick" else 300) for i in range(len(cases))], chunksize=1):
            i = o["idx"]
            c = cases[i]
            stats["queries"] += o["queries"]
            stats["solver_s"] += o["solver_s"]
            if o["status"] == "compile_error":
                continue
            if o["status"] == "unknown":
                inconclusive.append("solver unknown on case %d" % i)
            if o["status"] == "nonrepro":
                inconclusive.append("case %d: model not confirmed on the exported tables" % i)
            stats["compiled"] += 1
            for k in ("pairs_true", "pairs_false", "twins", "twins_sat", "states", "skipped_big", "joint_states", "joint_pairs_true", "joint_lazy_live"):
                stats[k] += o[k]
            for cd in o["joint_cands"]:
                jcands.append((i, cd))
            for cd in o["cands"]:
                viol.append(("subsume-unsound", dict(property=prop, case=c, counterexample=cd, slices=results[i].get("slices"),
                                                      note="check_subsume says the slice is contained in the prefixes of the lexeme at this state, but this string of the slice language kills the lexeme")))
            if len(samples) < 10 and i % max(1, len(cases) // 9) == 0:
                samples.append(dict(schema=c.get("schema") or c.get("text"), slices=c["slices"], state_slice_pairs_contained=o["pairs_true"], not_contained=o["pairs_false"], string_bound=L))
    # joint-state candidates: confirmed natively as a mask difference (engine with the slices vs engine without, vocabulary = single bytes + the token)
    if jcands:
        mj = []
        for i, cd in jcands:
            c = cases[i]
            j = dict(op="maskdiff", slices=c["slices"], bytes=cd["path"] or [], tokens=[cd["bytes"]])
            if "schema" in c:
                j.update(kind="json", schema=c["schema"])
            else:
                j.update(kind="lark", text=c["text"])
            mj.append(j)
        for (i, cd), rr in zip(jcands, e2.run_jobs(mj)):
            if rr.get("ok") and rr.get("diff"):
                viol.append(("sliced-mask-differs", dict(property=prop, case=cases[i], counterexample=cd, mask_difference=rr["diff"][:5], slices_applied=rr.get("slices_applied"),
                                                          note="positive containment verdict in a lexer state where the lexeme ends inside the token (%s); after the byte prefix `path` the engine with slices and the engine without disagree on the token" % cd["why"])))
            else:
                stats["joint_unconfirmed"] += 1
        if stats["joint_unconfirmed"] and not viol:
            inconclusive.append("%d joint-state models did not show a mask difference natively (lexeme set not reachable from the grammar start, or the masks agree)" % stats["joint_unconfirmed"])
    if stats["pairs_true"] == 0:
        inconclusive.append("no (state, slice) pair had a positive containment verdict: vacuous run")
    if stats["twins"] and stats["twins_sat"] == 0:
        inconclusive.append("vacuity twins: none of %d negative-verdict pairs had a witness" % stats["twins"])
    # ---- set-algebra half at table level: per-slice masks / remainder tries cover every token of the slice
    tstats = {}
    try:
        from . import slicer_tables
        dumped, words = slicer_tables.dump(sd)
        tstats, tv = slicer_tables.check_tables(dumped, words)
        for v in tv:
            # concrete confirmation on the dumped tables
            viol.append(("slice-tables|%s" % v["what"].split(":")[0], dict(property=prop, counterexample=v,
                         note="a token of the slice is neither OR-ed from an applied child's mask nor reachable in the trie that TokenizerSlice::apply walks in that case")))
        if tstats.get("slice_nodes", 0) == 0:
            inconclusive.append("slicer tables: nothing dumped")
    except RuntimeError as ex:
        inconclusive.append(str(ex)[:600])
    reported = 0
    seen = set()
    known_hits = []
    for key, payload in viol:
        if key in seen:
            continue
        seen.add(key)
        k = match_known(prop, key)
        if k:
            print("KNOWN-FINDING: property=%s %s (%s)" % (prop, k.get("what"), key))
            known_hits.append(key)
            continue
        payload["key"] = key
        rp = save_replay(prop, "c10_%d" % reported, payload)
        print("VIOLATION property=%s replay=%s" % (prop, rp))
        log("  ", key, json.dumps(payload, default=str, ensure_ascii=False)[:500])
        reported += 1
    cov = dict(programs=stats["compiled"], disagreements_checked=len(viol), samples=samples or [dict(note="none")], tier=tr, cases=len(cases), compiled=stats["compiled"],
               state_slice_pairs_with_positive_verdict=stats["pairs_true"], with_negative_verdict=stats["pairs_false"], lexeme_automaton_states=stats["states"], joint_automaton_states=stats["joint_states"], joint_states_with_lazy_lexeme_live=stats["joint_lazy_live"],
               joint_pairs_with_positive_verdict=stats["joint_pairs_true"], joint_models_unconfirmed=stats["joint_unconfirmed"],
               lexeme_automata_skipped_too_large=stats["skipped_big"], queries=stats["queries"], solver_s=round(stats["solver_s"], 2), vacuity_twins="%d/%d negative-verdict pairs have a witness string" % (stats["twins_sat"], stats["twins"]),
               functions_encoded=["earley/regexvec.rs subsume_possible / check_subsume (+ derivre is_contained_in_prefixes) — real verdicts per (state, slice)", "earley/lexerspec.rs add_extra_lexemes, to_regex_vec",
                                  "earley/slicer.rs general_slices/json_slices (slice lists), TokenizerSlice::from_topo_node + TokTrie::filter (tables dumped natively)", "json/compiler.rs string lexemes (maxLength/pattern/format/enum)"],
               bounds=dict(string_bytes=L, budget=1000, max_states=500, slice_lists=len(SLICE_LISTS)), known_findings_reported=known_hits, inconclusive=inconclusive[:20])
    assumptions = ["containment half + table-level set algebra: for a synthetic multi-byte vocabulary (376 tokens) the masks and remainder tries precomputed by TokenizerSlice::from_topo_node are dumped from the real code and the solver shows, for a symbolic token id, that whichever children applied every token of the slice is covered by an applied child's mask or by the trie apply() walks; the control flow of apply() itself and bit-for-bit mask equality at run time take a parser state and are outside the claim",
                   "slices only ever stand for tokens: strings longer than the bound (longest token) are outside"]
    write_evidence(prop, "translation_validation", cov, tm.s(), reported, assumptions)
    if reported:
        return EXIT_VIOLATION
    if settle(prop, inconclusive, len(cases)):
        return EXIT_INCONCLUSIVE
    print("OK property=%s tier=%s cases=%d pairs_true=%d queries=%d (%.0fs)" % (prop, tr, len(cases), stats["pairs_true"], stats["queries"], tm.s()))
    return EXIT_OK
