"""C13 — fast-forward bytes/tokens (tokenizer-side half). E1: add_bias with a non-empty start prefix (left-over forced bytes as a
mandatory prefix of the next mask), has_valid_extensions; E2-13.3: soundness of the lexer's next-byte hint that forced_byte trusts."""
import time

from . import e2parts
from .automaton import Aut
from .common import Timer, match_known, save_replay, seed, tier
from . import parser_props as pp
from .e1check import E1Outcome, e1_coverage, finish, run_parser_groups, run_toktrie_groups

ASSUMPTIONS = [
    "K13.2: TokTrie::add_bias(r, set, start) for every transition-table acceptor (2 states; 3 on the tiny table) and every start prefix of 1-2 symbolic bytes over the vocabulary families: bit t set <=> t non-empty and (t is a prefix of start, or start is a prefix of t and the acceptor takes the rest byte by byte); has_valid_extensions agrees",
    "E2-13.3: for every state of every exported lexer automaton and a symbolic byte: next_byte == ForcedByte(c) => every other byte and end-of-input are dead; ForcedEOI => every byte is dead (SomeBytes* hints carry no guarantee and are probed by forced_byte)",
    "K13.1: chop_tokens as a whole does not fit CBMC (12.9 GB at 400 s on a 4-word vocabulary even with format! stubbed). Decided instead: its token/byte accounting loop, cut out of the current source (between `let chop_bytes = suff.len();` and `unreachable!();`) and run for every combination of 1-4 token lengths in 1..6 and every suffix length: the returned byte count is exactly the length of the dropped tokens, they cover the suffix, and one token fewer would not. The suffix search itself is has_valid_extensions (decided above)",
    "K13.3: the probe of ParserState::forced_byte — the statements of its speculative closure after `let mut r = ParserRecognizer { state };`, cut from the current source — run against a mock recogniser with a symbolic set of viable bytes (all 2^256 sets) and every lexer hint (ForcedEOI, SomeBytes0/1/2 with distinct example bytes, Dead): it answers Some(b) exactly when b is the only viable byte. What try_push_byte itself answers is the Earley parser's and is outside",
    "K13.4: the byte accounting of TokenParser::process_prompt — its statements from the tokenisation of prompt+forced bytes to the end of the `if chop_bytes <= grm_bytes.len()` block, cut from the current source with the infoln! lines removed — in a mock TokenParser (one token per byte, tokenisation and decoding inverse, optional leading space on decode, tokenize_and_chop dropping a given number of trailing tokens as decided by K13.1): for prompt lengths 0-3, forced-byte lengths 0-3, every chop length and every content, returned prompt ++ pending text == prompt ++ forced bytes, the part moved into the prompt is marked applied, a chopped piece of the prompt becomes the grammar prefix. Sizes are concrete per instance (symbolic allocation lengths are out of CBMC's reach), contents symbolic",
    "K13.5 (E1c whole-function slices of TokenParser::{consume_token, apply_token, compute_ff_bytes_inner, ...} over a stub parser): with a pending grammar prefix of 1-2 symbolic bytes (prompt bytes handed back to the grammar by process_prompt), a committed token is matched against the prefix byte by byte, only its bytes beyond the prefix reach the parser, a token that contradicts the prefix fails the engine (InternalError) before anything reaches the parser, and the forced bytes reported next are exactly what is left of the prefix",
    "outside the claim: try_push_byte / the Earley rows behind the probe, force_bytes, ff_tokens' tokenisation, that committed fast-forward tokens are accepted by the parser (need the parser state)",
]


def hint_e2(out, tr, sd):
    cases = e2parts.corpus(tr, sd)
    results = e2parts.export(cases)
    st = dict(automata=0, queries=0, solver_s=0.0, hinted_states=0, sat=0)
    for c, res in zip(cases, results):
        if not res.get("ok"):
            continue
        for k, a in enumerate(res.get("automata") or []):
            if "error" in a:
                continue
            au = Aut(a)
            if au.init == 0:
                continue
            t0 = time.time()
            r, n = e2parts.hint_query(au)
            st["solver_s"] += time.time() - t0
            if n == 0:
                continue
            st["queries"] += 1
            st["automata"] += 1
            st["hinted_states"] += n
            if r == "unknown":
                out.inconclusive.append("E2-13.3 solver unknown")
            elif r:
                st["sat"] += 1
                key = "hint-unsound|%s" % (r.get("hint") or {}).get("k")
                kf = match_known("C13", key)
                if kf:
                    out.known.append(dict(key=key, what=kf.get("what")))
                    out.violations.append(dict(key=key, known=True))
                    continue
                # concrete confirmation on the exported table
                q, b = r["state"], r["byte"]
                hint = r["hint"]
                alive = au.step(q, b) != 0
                ok = (hint["k"] == "ForcedByte" and ((alive and b != hint["b"][0]) or bool(au.acc[q]))) or (hint["k"] == "ForcedEOI" and alive) or hint["k"] == "Dead"
                if ok:
                    rp = save_replay("C13", "c13_hint_%d" % st["sat"], dict(property="C13", key=key, case=c, lexeme_set=a.get("lexemes"), state=q, byte=b, hint=hint,
                                     note="the lexer's next-byte hint contradicts its own transition table"))
                    out.violations.append(dict(key=key, harness="E2-13.3", failed=[dict(description="hint %s but byte %d alive" % (hint, b))], known=False, replay=rp))
                else:
                    out.inconclusive.append("E2-13.3 model not confirmed on the exported table")
    # vacuity twin
    twin = Aut({"n": 3, "init": 1, "states": [{"t": [], "acc": [], "nb": {"k": "Dead", "b": []}},
                                               {"t": [[97, 97, 2], [98, 98, 2]], "acc": [], "nb": {"k": "ForcedByte", "b": [97]}},
                                               {"t": [], "acc": [0], "nb": {"k": "ForcedEOI", "b": []}}]})
    r, n = e2parts.hint_query(twin)
    if not r or r == "unknown":
        out.inconclusive.append("E2-13.3 vacuity twin (wrong ForcedByte hint) not flagged")
    if st["hinted_states"] == 0:
        out.inconclusive.append("E2-13.3 saw no ForcedByte/ForcedEOI hint: vacuous")
    return st


def run():
    tm = Timer()
    out = E1Outcome()
    t, sd = tier(), seed()

    def sel(s):
        n = s["name"]
        return ("_l1" in n or "_l2" in n) and ("k16_3_walk" in n or "hasext" in n)
    # the forced_byte probe (source slice, llguidance crate) runs next to the toktrie group: separate overlays and target directories
    from concurrent.futures import ThreadPoolExecutor
    with ThreadPoolExecutor(max_workers=2) as ex:
        pspecs = pp.specs("parser", "c13", "c13_fail") + pp.specs("tokenparser", "c13", "c13_fail") + pp.specs("tpproto", "c13", "proto_fail")
        if t == "quick":
            pspecs = [x for x in pspecs if not any(k in x["name"] for k in ("p2_g2_c0", "p2_g2_c4", "p3_g1", "p0_g0"))]
        fp = ex.submit(run_parser_groups, "C13", "c13p", ["parser", "tokenparser", "tpproto"], pspecs, out, 8, 1500, 40)
        info, fams = run_toktrie_groups("C13", "c13", {"walk", "hasext"}, out, select=sel, extra_specs=None, harness_timeout_s=900, chop=True, jobs=12)
        infop = fp.result()
    info["kani_wall_s_parser_crate"] = infop.get("kani_wall_s", 0)
    try:
        st = hint_e2(out, t, sd)
    except RuntimeError as ex:
        out.inconclusive.append("exporter build failed: %s" % str(ex)[:300])
        st = {}
    cov = e1_coverage(out, [dict(vocabulary=f["name"], words=[bytes(w).decode("latin-1") for w in f["words"]]) for f in fams[:6]] or [dict(note="none")],
                      ["toktrie::toktree::TokTrie::{add_bias (start != ''), add_bias_inner, has_valid_extensions, child_at_bytes}, FixedRecognizer",
                       "earley/parser.rs ParserState::forced_byte probe loop (source slice)", "tokenparser.rs TokenParser::process_prompt byte accounting (source slice)", "earley/regexvec.rs next_byte (hint) vs transition table of every exported lexer automaton"],
                      dict(start_len=[1, 2], acceptor_states=[2, 3]), dict(tier=t, e2_hints=st, **info))
    cov["evaluations"] += st.get("queries", 0)
    cov["distinct_nontrivial"] += st.get("automata", 0)
    return finish("C13", out, tm, "model_checking", cov, ASSUMPTIONS)
