"""C08 — numeric bound keywords admit exactly the numbers inside the bounds. Engine E2 (export + z3) with native replay."""
import json
import random
import time
from fractions import Fraction

import z3

from . import e2
from .automaton import Aut
from .common import (EXIT_INCONCLUSIVE, EXIT_OK, EXIT_VIOLATION, Timer, known_for, log, match_known, save_replay, seed, tier,
                     write_evidence)

LF = 5          # fraction digit slots of the symbolic literal
FRAC_BOUND = 3  # bounds carry at most this many fractional digits

SYMS = [ord(c) for c in "0123456789-."]
MINUS, DOT = 10, 11


def _num(fr):
    """JSON number for a Fraction with <= 3 fractional digits"""
    if fr.denominator == 1:
        return int(fr)
    return float(fr)


def make_schema(t):
    s = {"type": t["type"]}
    for k in ("minimum", "maximum", "exclusiveMinimum", "exclusiveMaximum", "multipleOf"):
        if t.get(k) is not None:
            s[k] = _num(t[k])
    if t.get("allof_mult") is not None:
        s = {"allOf": [s, {"multipleOf": _num(t["allof_mult"])}]}
    return s


def eff_bounds(t):
    """(lo, lo_strict, hi, hi_strict) by JSON-schema semantics (all keywords must hold)"""
    lo, los, hi, his = None, False, None, False
    if t.get("minimum") is not None:
        lo, los = t["minimum"], False
    if t.get("exclusiveMinimum") is not None:
        x = t["exclusiveMinimum"]
        if lo is None or x >= lo:
            lo, los = x, True
    if t.get("maximum") is not None:
        hi, his = t["maximum"], False
    if t.get("exclusiveMaximum") is not None:
        x = t["exclusiveMaximum"]
        if hi is None or x <= hi:
            hi, his = x, True
    return lo, los, hi, his


def mults(t):
    m = []
    if t.get("multipleOf") is not None:
        m.append(t["multipleOf"])
    if t.get("allof_mult") is not None:
        m.append(t["allof_mult"])
    return m


def oracle_concrete(t, text):
    """independent exact-arithmetic judgement of a literal (python Fractions)"""
    v = Fraction(text)
    if t["type"] == "integer" and v.denominator != 1:
        return False
    lo, los, hi, his = eff_bounds(t)
    if lo is not None and (v < lo or (los and v == lo)):
        return False
    if hi is not None and (v > hi or (his and v == hi)):
        return False
    for m in mults(t):
        if m == 0:
            if v != 0:
                return False
        elif (v / m).denominator != 1:
            return False
    return True


def gen_tuples(t, sd):
    rng = random.Random(7000 + sd)
    out = []
    F = Fraction

    def add(**kw):
        kw.setdefault("type", "integer")
        out.append(kw)

    W = 12 if t == "quick" else 40
    pairs = [(a, b) for a in range(-W, W + 1) for b in range(a, W + 1)]
    if t == "quick":
        pairs = rng.sample(pairs, 70)
    for (a, b) in pairs:
        kinds = [("minimum", "maximum")]
        if t != "quick" or rng.random() < 0.5:
            kinds.append(rng.choice([("exclusiveMinimum", "maximum"), ("minimum", "exclusiveMaximum"), ("exclusiveMinimum", "exclusiveMaximum")]))
        for (ka, kb) in kinds:
            add(type="integer", **{ka: F(a), kb: F(b)})
        if rng.random() < (0.25 if t == "quick" else 0.1):
            add(type="number", minimum=F(a), maximum=F(b))
    # reversed / empty intervals (must be rejected at compile time)
    for _ in range(6 if t == "quick" else 40):
        a = rng.randint(-W, W)
        b = rng.randint(-W, a)
        add(type=rng.choice(["integer", "number"]), **{rng.choice(["minimum", "exclusiveMinimum"]): F(a), rng.choice(["maximum", "exclusiveMaximum"]): F(b)})
    # one-sided
    for _ in range(10 if t == "quick" else 60):
        k = rng.choice(["minimum", "maximum", "exclusiveMinimum", "exclusiveMaximum"])
        add(type=rng.choice(["integer", "number"]), **{k: F(rng.randint(-300, 300))})
    # wider magnitudes
    for _ in range(20 if t == "quick" else 150):
        a = rng.randint(-5000, 5000)
        b = a + rng.choice([0, 1, 9, 10, 11, 99, 100, 101, 999, 1000, 1234, 9999])
        add(type=rng.choice(["integer", "integer", "number"]), minimum=F(a), maximum=F(b))
    # powers of ten
    ks = [1, 2, 3, 5, 9, 15] if t == "quick" else list(range(1, 16))
    for k in ks:
        for d in (-1, 0, 1):
            p = 10 ** k + d
            choice = rng.random()
            if choice < 0.34:
                add(type="integer", minimum=F(-p), maximum=F(p))
            elif choice < 0.67:
                add(type="integer", minimum=F(p - 20), maximum=F(p + 20))
            else:
                add(type="integer", exclusiveMinimum=F(-p - 3), exclusiveMaximum=F(-p + 15))
    # decimal bounds (number and integer: integer exercises normalize_integer_bounds)
    for _ in range(50 if t == "quick" else 400):
        nd = rng.choice([1, 1, 2, 3])
        a = F(rng.randint(-3000, 3000), 10 ** nd)
        b = a + F(rng.randint(0, 2500), 10 ** rng.choice([1, 2, 3]))
        ka = rng.choice(["minimum", "exclusiveMinimum"])
        kb = rng.choice(["maximum", "exclusiveMaximum"])
        add(type=rng.choice(["number", "number", "integer"]), **{ka: a, kb: b})
    # intervals inside one unit (same integer part on both sides), all inclusive/exclusive combinations
    for _ in range(24 if t == "quick" else 200):
        a = F(rng.randint(-30, 30))
        lo = a + rng.choice([F(0), F(0), F(1, 10), F(25, 100), F(5, 10)])
        hi = a + rng.choice([F(5, 10), F(75, 100), F(9, 10), F(999, 1000), F(1)])
        if lo > hi:
            lo, hi = hi, lo
        add(type="number", **{rng.choice(["minimum", "exclusiveMinimum"]): lo, rng.choice(["maximum", "exclusiveMaximum"]): hi})
    # both inclusive and exclusive keywords present (selection of the stricter one)
    for _ in range(10 if t == "quick" else 80):
        a = rng.randint(-20, 20)
        add(type=rng.choice(["integer", "number"]), minimum=F(a), exclusiveMinimum=F(a + rng.randint(-2, 2)),
            maximum=F(a + 10), exclusiveMaximum=F(a + 10 + rng.randint(-2, 2)))
    # multipleOf
    MS = [F(1), F(2), F(3), F(7), F(10), F(1, 2), F(1, 4), F(1, 10), F(1, 100), F(3, 2), F(5), F(12), F(25, 10)]
    for _ in range(40 if t == "quick" else 300):
        m = rng.choice(MS)
        ty = rng.choice(["integer", "number"])
        kw = dict(type=ty, multipleOf=m)
        r = rng.random()
        if r < 0.7:
            a = rng.randint(-60, 60)
            kw["minimum"] = F(a)
            kw["maximum"] = F(a + rng.randint(0, 40))
        elif r < 0.85:
            kw[rng.choice(["minimum", "exclusiveMinimum"])] = F(rng.randint(-60, 60))
        add(**kw)
    # ranges that hold no multiple (must be rejected at compile time), incl. the floating-point traps 0.3/0.1
    for (ty, lo, hi, m, ka, kb) in [("number", F(3, 10), F(35, 100), F(1, 10), "exclusiveMinimum", "maximum"), ("integer", F(3, 10), F(12, 10), F(3, 10), "minimum", "maximum"),
                                    ("number", F(11, 10), F(19, 10), F(1), "minimum", "maximum"), ("integer", F(4), F(6), F(3), "exclusiveMinimum", "exclusiveMaximum"),
                                    ("number", F(7, 10), F(8, 10), F(1, 10), "exclusiveMinimum", "exclusiveMaximum"), ("number", F(1, 10), F(3, 10), F(2, 10), "exclusiveMinimum", "maximum")]:
        add(type=ty, multipleOf=m, **{ka: lo, kb: hi})
    # intersections of two multipleOf through allOf (lcm)
    for _ in range(6 if t == "quick" else 40):
        m1, m2 = rng.choice(MS), rng.choice(MS)
        a = rng.randint(-30, 30)
        add(type=rng.choice(["integer", "number"]), multipleOf=m1, allof_mult=m2, minimum=F(a), maximum=F(a + rng.randint(5, 80)))
    return out


def literal_sizes(t):
    lo, _, hi, _ = eff_bounds(t)
    mx = max([abs(x) for x in (lo, hi) if x is not None] + [1])
    li = len(str(int(mx))) + 2
    lf = 0 if t["type"] == "integer" else LF
    if mults(t) and lf:
        # bit-vector encoding: keep the literal small (remainder by a constant over a 60-bit value is what costs)
        lf = min(3 if tier() == "quick" else 4, max(2, mult_exp(t) + 1))
        li = min(li, 3 if tier() == "quick" else 4)
    return li, lf


class Enc:
    """Symbolic plain decimal literal with optional slots, run through the exported automaton."""

    BVW = 60

    def __init__(self, aut, lexeme, li, lf, no_trailing_zero, bv=False):
        """bv=True: digits and value as 60-bit vectors (used with multipleOf: remainder by a constant is decided by
        bit-blasting in seconds where the integer encoding times out); bv=False: mathematical integers (any magnitude)."""
        self.aut, self.li, self.lf, self.bv = aut, li, lf, bv
        self.cons = []
        self.neg = z3.Bool("neg")
        self.ip = [z3.Bool("ip%d" % k) for k in range(li)]      # integer digit slot present
        self.fp = [z3.Bool("fp%d" % k) for k in range(lf)]
        c = self.cons
        if bv:
            assert 10 ** (li + lf) * (10 ** FRAC_BOUND) * 1000 < 2 ** (self.BVW - 2)
            self.idg = [z3.BitVec("id%d" % k, self.BVW) for k in range(li)]
            self.fdg = [z3.BitVec("fd%d" % k, self.BVW) for k in range(lf)]
            for d in self.idg + self.fdg:
                c.append(z3.ULE(d, 9))
        else:
            self.idg = [z3.Int("id%d" % k) for k in range(li)]
            self.fdg = [z3.Int("fd%d" % k) for k in range(lf)]
            for d in self.idg + self.fdg:
                c.append(z3.And(d >= 0, d <= 9))
        # integer slots: absent ones first; last slot always present
        for k in range(li - 1):
            c.append(z3.Implies(self.ip[k], self.ip[k + 1]))
        c.append(self.ip[li - 1])
        for k in range(li):
            c.append(z3.Implies(z3.Not(self.ip[k]), self.idg[k] == 0))
        # no leading zero unless single digit
        for k in range(li - 1):
            first = self.ip[k] if k == 0 else z3.And(self.ip[k], z3.Not(self.ip[k - 1]))
            c.append(z3.Implies(first, self.idg[k] != 0))
        # fraction slots: present ones first
        for k in range(lf - 1):
            c.append(z3.Implies(self.fp[k + 1], self.fp[k]))
        for k in range(lf):
            c.append(z3.Implies(z3.Not(self.fp[k]), self.fdg[k] == 0))
        if no_trailing_zero:
            for k in range(lf):
                last = z3.And(self.fp[k], z3.Not(self.fp[k + 1])) if k + 1 < lf else self.fp[k]
                c.append(z3.Implies(last, self.fdg[k] != 0))
        zero = z3.BitVecVal(0, self.BVW) if bv else z3.IntVal(0)
        self.I = sum((self.idg[k] * (10 ** (li - 1 - k)) for k in range(li)), zero)
        self.F = sum((self.fdg[k] * (10 ** (lf - 1 - k)) for k in range(lf)), zero)
        self.scale = 10 ** lf
        mag = self.I * self.scale + self.F
        self.mag = mag
        self.V = z3.If(self.neg, -mag, mag)           # value * 10^lf
        # negative zero excluded
        c.append(z3.Not(z3.And(self.neg, mag == 0)))
        # automaton run over the slots
        tab = [[aut.step(q, s) for s in SYMS] for q in range(aut.n)]
        reach = {aut.init}
        cur = {aut.init: z3.BoolVal(True)}
        step_id = [0]

        def step(present, sym_terms):
            """sym_terms: list of (symbol index, condition or None)"""
            nonlocal cur
            step_id[0] += 1
            inc = {}
            for q, pv in cur.items():
                for (s, cond) in sym_terms:
                    q2 = tab[q][s]
                    term = pv if cond is None else z3.And(pv, cond)
                    inc.setdefault(q2, []).append(term)
            nxt = {}
            keys = set(inc.keys()) | set(cur.keys())
            for q2 in keys:
                moved = z3.Or(*inc[q2]) if q2 in inc else z3.BoolVal(False)
                stay = cur.get(q2, z3.BoolVal(False))
                v = z3.Bool("s%d_%d" % (step_id[0], q2))
                if z3.is_true(present):
                    c.append(v == moved)
                else:
                    c.append(v == z3.If(present, moved, stay))
                nxt[q2] = v
            cur = nxt

        step(self.neg, [(MINUS, None)])
        for k in range(li):
            step(self.ip[k], [(j, self.idg[k] == j) for j in range(10)])
        if lf:
            step(self.fp[0], [(DOT, None)])
            for k in range(lf):
                step(self.fp[k], [(j, self.fdg[k] == j) for j in range(10)])
        accs = [v for q, v in cur.items() if q != 0 and lexeme in aut.acc[q]]
        self.accepted = z3.Or(*accs) if accs else z3.BoolVal(False)

    def oracle(self, t, shift=None):
        """value in bounds & multiples, as a linear-integer formula over V (= value * 10^lf)"""
        lo, los, hi, his = eff_bounds(t)
        if shift:
            lo, hi = shift(lo, hi)
        S = self.scale
        K = 10 ** FRAC_BOUND
        parts = []
        if lo is not None:
            L = lo * K * S
            assert L.denominator == 1
            parts.append(self.V * K > int(L) if los else self.V * K >= int(L))
        if hi is not None:
            H = hi * K * S
            assert H.denominator == 1
            parts.append(self.V * K < int(H) if his else self.V * K <= int(H))
        for m in mults(t):
            # v multiple of m = c/10^e  <=>  V*10^e mod (c*10^lf) == 0      (V = v*10^lf)
            e = 0
            mm = m
            while mm.denominator != 1:
                mm *= 10
                e += 1
            cc = int(mm)
            if self.bv:
                parts.append(z3.URem(self.mag * (10 ** e), z3.BitVecVal(cc * S, self.BVW)) == 0)
            else:
                parts.append((self.V * (10 ** e)) % (cc * S) == 0)
        return z3.And(*parts) if parts else z3.BoolVal(True)

    def text(self, model):
        ev = lambda x: model.eval(x, model_completion=True)
        s = "-" if z3.is_true(ev(self.neg)) else ""
        for k in range(self.li):
            if z3.is_true(ev(self.ip[k])):
                s += str(ev(self.idg[k]).as_long())
        fr = ""
        for k in range(self.lf):
            if z3.is_true(ev(self.fp[k])):
                fr += str(ev(self.fdg[k]).as_long())
        if fr:
            s += "." + fr
        return s


def mult_exp(t):
    e = 0
    for m in mults(t):
        k = 0
        while m.denominator != 1:
            m *= 10
            k += 1
        e = max(e, k)
    return e


def classify(t, text, kind):
    """role of a disagreement (used as known-finding key): never a line number or a concrete schema"""
    frac = len(text.split(".")[1]) if "." in text else 0
    if kind.startswith("rejected-inside") and mults(t) and frac > 0 and frac != mult_exp(t):
        return "rejected-inside-bounds|number|multipleOf-fraction-digits-differ-from-step"
    return "%s|%s|mult=%s|frac=%s" % (kind, t["type"], bool(mults(t)), frac > 0)


def find_number_lexeme(res):
    import re
    m = re.search(r"start\s+⇦\s+•?\s*\[(\d+)\]", res.get("cgrammar", "") or "")
    if m:
        return int(m.group(1))
    return None


def tuple_str(t):
    return json.dumps({k: (str(v) if isinstance(v, Fraction) else v) for k, v in t.items()}, sort_keys=True)


def _work(args):
    """one bounds tuple: build the queries, solve, return (stats, candidates, sample, inconclusive)"""
    n_done, t, res, do_twin = args
    st = dict(compiled=0, rejected=0, queries=0, unsat=0, sat=0, twins=0, twins_sat=0, skipped_big=0, solver_s=0.0, unknown=0)
    cands, inc, sample = [], [], None
    li, lf = literal_sizes(t)
    no_tz = bool(mults(t))
    if not res.get("ok"):
        if res.get("crash") or res.get("panic"):
            cands.append((t, None, None, "crash:" + str(res.get("error"))[:200]))
            return st, cands, sample, inc
        st["rejected"] += 1
        dummy = Aut({"n": 1, "init": 0, "states": [{"t": [], "acc": []}]})
        enc = Enc(dummy, 0, li, lf, no_tz, bv=bool(mults(t)))
        s = z3.Solver()
        s.set("timeout", 60000)
        s.add(*enc.cons)
        s.add(enc.oracle(t))
        t0 = time.time()
        r = s.check()
        st["solver_s"] += time.time() - t0
        st["queries"] += 1
        if r == z3.sat:
            cands.append((t, enc.text(s.model()), False, "rejected-but-satisfiable:" + str(res.get("error"))[:160]))
            st["sat"] += 1
        elif r == z3.unsat:
            st["unsat"] += 1
        else:
            st["unknown"] += 1
            inc.append("solver returned unknown (rejected schema) on %s" % tuple_str(t))
        sample = dict(schema=make_schema(t), compile="rejected: " + str(res.get("error"))[:100], oracle_has_solution=str(r))
        return st, cands, sample, inc
    lex = find_number_lexeme(res)
    auts = res.get("automata") or []
    if lex is None or lex >= len(auts) or "error" in auts[lex]:
        st["skipped_big"] += 1
        inc.append("tuple %s: no automaton (%s)" % (tuple_str(t), (auts[lex].get("error") if lex is not None and lex < len(auts) else "lexeme not found")))
        return st, cands, sample, inc
    st["compiled"] += 1
    aut = Aut(auts[lex])
    if aut.init == 0 or aut.init not in aut.coreachable(lex):
        # the schema compiled although its number lexeme has an empty language: combinations with no satisfying value must be rejected
        cands.append((t, None, None, "compiled-with-empty-language"))
        return st, cands, sample, inc
    enc = Enc(aut, lex, li, lf, no_tz, bv=bool(mults(t)))
    s = z3.Solver()
    s.set("timeout", 120000)
    s.add(*enc.cons)
    orc = enc.oracle(t)
    for kind, f in (("accepted-outside-bounds", z3.And(enc.accepted, z3.Not(orc))), ("rejected-inside-bounds", z3.And(z3.Not(enc.accepted), orc))):
        s.push()
        s.add(f)
        t0 = time.time()
        r = s.check()
        st["solver_s"] += time.time() - t0
        st["queries"] += 1
        if r == z3.sat:
            st["sat"] += 1
            txt = enc.text(s.model())
            cands.append((t, txt, kind.startswith("accepted"), kind))
            if classify(t, txt, kind).endswith("multipleOf-fraction-digits-differ-from-step"):
                # look past the recorded finding: a second model whose fraction has no digits or exactly as many as the step
                e = mult_exp(t)
                nfrac = z3.Sum([z3.If(p, 1, 0) for p in enc.fp]) if enc.fp else z3.IntVal(0)
                s.add(z3.Or(nfrac == 0, nfrac == e))
                t0 = time.time()
                r2 = s.check()
                st["solver_s"] += time.time() - t0
                st["queries"] += 1
                if r2 == z3.sat:
                    st["sat"] += 1
                    cands.append((t, enc.text(s.model()), False, kind))
                elif r2 == z3.unsat:
                    st["unsat"] += 1
                else:
                    st["unknown"] += 1
                    inc.append("solver returned unknown on %s" % tuple_str(t))
        elif r == z3.unsat:
            st["unsat"] += 1
        else:
            st["unknown"] += 1
            inc.append("solver returned unknown on %s" % tuple_str(t))
        s.pop()
    # vacuity twin: the same query against an oracle whose bound is moved by one must be SAT
    lo, los, hi, his = eff_bounds(t)
    if do_twin and not mults(t) and (lo is not None or hi is not None) and not (lo is not None and hi is not None and lo > hi):
        def shift(lo_, hi_):
            if hi_ is not None:
                return lo_, hi_ + 1
            return lo_ - 1, hi_
        s.push()
        s.add(enc.accepted != enc.oracle(t, shift))
        t0 = time.time()
        r = s.check()
        st["solver_s"] += time.time() - t0
        st["queries"] += 1
        st["twins"] += 1
        if r == z3.sat:
            st["twins_sat"] += 1
        else:
            inc.append("vacuity twin (bound moved by one) came back %s for %s: encoder broken" % (r, tuple_str(t)))
        s.pop()
    if n_done % 25 == 0:
        sample = dict(schema=make_schema(t), automaton_states=aut.n, literal_slots=dict(int_digits=li, frac_digits=lf),
                      encoding="bit-vector" if mults(t) else "integer", verdict="no literal distinguishes engine and oracle" if not cands else "candidate found")
    return st, cands, sample, inc


def run():
    from concurrent.futures import ProcessPoolExecutor
    tm = Timer()
    tr = tier()
    sd = seed()
    prop = "C08"
    tuples = gen_tuples(tr, sd)
    inconclusive = []
    try:
        jobs = [dict(op="compile", kind="json", schema=make_schema(t), want=["cgrammar", "lexemes", "automata"], max_states=3000) for t in tuples]
        results = e2.run_jobs(jobs)
    except RuntimeError as ex:
        write_evidence(prop, "translation_validation", dict(evaluations=1, distinct_nontrivial=0, samples=["exporter build failed"]), tm.s(), 0, [])
        print("INCONCLUSIVE property=%s: %s" % (prop, str(ex)[:500]))
        return EXIT_INCONCLUSIVE
    stats = dict(tuples=len(tuples), compiled=0, rejected=0, queries=0, unsat=0, sat=0, twins=0, twins_sat=0, skipped_big=0, solver_s=0.0,
                 unknown=0)
    candidates = []   # (tuple, literal text, engine_symbolic_accept, kind)
    samples = []
    work = [(i, tuples[i], results[i], i % 5 == 0) for i in range(len(tuples))]
    with ProcessPoolExecutor(max_workers=14) as ex:
        for st, cands, sample, inc in ex.map(_work, work, chunksize=4):
            for k, v in st.items():
                stats[k] += v
            candidates += cands
            inconclusive += inc
            if sample is not None and len(samples) < 12:
                samples.append(sample)

    # ---- replay every candidate on the real engine (single-byte vocabulary) and judge with the python oracle
    viol = []
    nonrepro = []
    known_hits = []
    rjobs = []
    for (t, text, eng_sym, kind) in candidates:
        if text is None:
            continue
        rjobs.append(dict(op="replay", kind="json", schema=make_schema(t), bytes=list(text.encode())))
    rres = e2.run_jobs(rjobs) if rjobs else []
    ri = 0
    for (t, text, eng_sym, kind) in candidates:
        if text is None and kind == "compiled-with-empty-language":
            viol.append(("unsatisfiable-not-rejected|%s|mult=%s" % (t["type"], bool(mults(t))),
                         dict(property=prop, kind=kind, schema=make_schema(t), note="the schema compiles but its number lexeme accepts nothing: an unsatisfiable combination was not rejected at compile time")))
            continue
        if text is None:
            key = "crash|" + ("integer" if t["type"] == "integer" else "number")
            payload = dict(property=prop, kind=kind, schema=make_schema(t), note="engine panicked or crashed while compiling this schema")
            viol.append((key, payload))
            continue
        rr = rres[ri]
        ri += 1
        want = oracle_concrete(t, text)
        if kind.startswith("rejected-but-satisfiable"):
            # engine refuses a satisfiable schema: allowed by C06 ("schemas it cannot honour are rejected"), but C08 says unsatisfiable
            # combinations are the ones rejected; an error that claims unsatisfiability for a satisfiable schema is a finding
            if want and "nsatisfiable" in kind or "contains no" in kind or "greater than" in kind or "does not contain" in kind:
                key = "rejected-satisfiable|%s|mult=%s" % (t["type"], bool(mults(t)))
                viol.append((key, dict(property=prop, kind=kind, schema=make_schema(t), witness_literal=text, oracle_accepts=want)))
            continue
        if not rr.get("ok"):
            nonrepro.append(dict(schema=make_schema(t), literal=text, replay=rr))
            continue
        got = bool(rr.get("all") and rr.get("accepting"))
        if got != want:
            log("  disagreement:", json.dumps(make_schema(t)), repr(text), "engine", got, "oracle", want)
            key = classify(t, text, kind)
            viol.append((key, dict(property=prop, kind=kind, schema=make_schema(t), literal=text, engine_accepts=got, oracle_accepts=want,
                                   replay=dict(consumed=rr.get("consumed"), accepting=rr.get("accepting")))))
        else:
            nonrepro.append(dict(schema=make_schema(t), literal=text, engine=got, oracle=want, kind=kind))
    if nonrepro:
        inconclusive.append("%d solver models did not reproduce on the real engine (encoder/export problem): %s" % (len(nonrepro), json.dumps(nonrepro[0], default=str)[:400]))
    reported = 0
    seen_keys = set()
    for key, payload in viol:
        k = match_known(prop, key)
        if k:
            if key not in seen_keys:
                print("KNOWN-FINDING: property=%s %s (%s)" % (prop, k.get("what"), key))
                known_hits.append(key)
            seen_keys.add(key)
            continue
        if key in seen_keys:
            continue
        seen_keys.add(key)
        payload["key"] = key
        payload["how_to_replay"] = "./check replay <this file>"
        rp = save_replay(prop, "c08_%d" % reported, payload)
        print("VIOLATION property=%s replay=%s" % (prop, rp))
        log("  ", json.dumps(payload, default=str)[:600])
        reported += 1
    # E1 companions (Kani): normalize_integer_bounds on symbolic f64 bounds, keyword selection, lcm on small coefficients
    from . import parser_props as pp
    from .e1check import E1Outcome, run_parser_groups, summarize
    e1o = E1Outcome()
    ns = pp.specs("numeric", "c08")
    if tr == "quick":
        ns = [x for x in ns if "lcm_small" not in x["name"]]
    run_parser_groups(prop, "c08", ["numeric"], ns, e1o, harness_timeout_s=900)
    for v in e1o.violations:
        if v.get("known"):
            continue
        if v.get("replay"):
            print("VIOLATION property=%s replay=%s" % (prop, v["replay"]))
            reported += 1
    inconclusive += e1o.inconclusive
    e1s = summarize(e1o)
    cov = dict(
        e1_numeric_kernels=dict(harnesses=e1s["per_harness"], covers="%d/%d" % (e1s["covers_satisfied"], e1s["covers_total"]), solver_s=e1s["solver_s"]),
        programs=stats["compiled"] + stats["rejected"],
        disagreements_checked=len(candidates),
        samples=samples or [dict(note="no tuple processed")],
        tier=tr, tuples=len(tuples), compiled=stats["compiled"], rejected_at_compile_time=stats["rejected"],
        queries=stats["queries"], unsat=stats["unsat"], sat=stats["sat"], unknown=stats["unknown"],
        vacuity_twins="%d/%d sat" % (stats["twins_sat"], stats["twins"]), solver_s=round(stats["solver_s"], 2),
        functions_encoded=["json/schema.rs keyword selection (get_minimum/get_maximum, allOf intersection)", "json/numeric.rs check_number_bounds, normalize_integer_bounds, rx_int_range, rx_float_range, lexi_*",
                           "json/compiler.rs json_int/json_number/signed_multiple_of_ast", "derivre regex parsing + derivatives", "earley/regexvec.rs state construction (automaton materialised by the engine itself)"],
        bounds=dict(literal="sign? int digits (<= digits(max|bound|)+2) [. up to %d fraction digits] ; integer schemas: no fraction part; with multipleOf: no trailing zero in the fraction" % LF,
                    bounds_fraction_digits=FRAC_BOUND),
        known_findings_reported=known_hits, inconclusive=inconclusive[:20],
    )
    assumptions = [
        "the lexer interpreter (Lexer::advance / Earley scan) runs the exported automaton faithfully: E2 executes the engine's own table symbolically, not the interpreter",
        "literals longer than the stated digit bounds, exponent notation, negative zero are outside the claim",
        "every solver model is replayed on the real Matcher (single-byte vocabulary) and judged by an independent exact-arithmetic oracle; only disagreements of those two are reported",
        "exporter built in release profile without overflow checks (what users run)",
    ]
    write_evidence(prop, "translation_validation", cov, tm.s(), reported, assumptions)
    if reported:
        return EXIT_VIOLATION
    undecided = [x for x in inconclusive if x.startswith("solver returned unknown")]
    hard = [x for x in inconclusive if not x.startswith("solver returned unknown")]
    if hard or len(undecided) > max(1, len(tuples) // 100):
        print("INCONCLUSIVE property=%s: %s" % (prop, (hard or undecided)[0][:300]))
        return EXIT_INCONCLUSIVE
    for u in undecided:
        print("UNDECIDED (solver time-out, tuple not part of the claim of this run): %s" % u[:200])
    print("OK property=%s tier=%s tuples=%d queries=%d (%.0fs)" % (prop, tr, len(tuples), stats["queries"], tm.s()))
    return EXIT_OK
