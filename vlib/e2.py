"""E2 — exporter driver: builds /verif/export against the current /repo tree (path deps) and runs batches of jobs."""
import hashlib
import json
import os
import shutil
import subprocess
import time

from .common import CACHE, REPO, VERIF, base_env, log

_built = {}


def _slot():
    h = hashlib.sha1(os.path.realpath(REPO).encode()).hexdigest()[:10]
    return os.path.join(CACHE, "export-" + h)


def build(profile="release"):
    """(Re)build the exporter against REPO's current working tree. cargo's own fingerprints decide what is recompiled,
    so an edited /repo file is always picked up. Returns path of the binary or raises RuntimeError."""
    key = (REPO, profile)
    if key in _built:
        return _built[key]
    slot = _slot()
    crate = os.path.join(slot, "crate")
    os.makedirs(os.path.join(crate, "src"), exist_ok=True)
    src = os.path.join(VERIF, "export/src/main.rs")
    dst = os.path.join(crate, "src/main.rs")
    if not os.path.exists(dst) or open(dst).read() != open(src).read():
        shutil.copyfile(src, dst)
    toml = """[package]
name = "llgx"
version = "0.1.0"
edition = "2021"

[workspace]

[dependencies]
llguidance = { path = "%s/parser", default-features = false, features = ["lark", "ahash"] }
toktrie = { path = "%s/toktrie" }
serde_json = { version = "1.0.138", features = ["preserve_order"] }
anyhow = "1.0.95"

[profile.release]
debug = 0
opt-level = 2
overflow-checks = true
debug-assertions = false

[profile.dev]
debug = 0
opt-level = 1
""" % (os.path.realpath(REPO), os.path.realpath(REPO))
    tp = os.path.join(crate, "Cargo.toml")
    if not os.path.exists(tp) or open(tp).read() != toml:
        with open(tp, "w") as f:
            f.write(toml)
    lock = os.path.join(crate, "Cargo.lock")
    if not os.path.exists(lock):
        shutil.copyfile(os.path.join(REPO, "Cargo.lock"), lock)
    env = base_env()
    env["CARGO_TARGET_DIR"] = os.path.join(slot, "target")
    t0 = time.time()
    cmd = ["cargo", "build", "--offline", "-q"] + (["--release"] if profile == "release" else [])
    p = subprocess.run(cmd, cwd=crate, env=env, capture_output=True, text=True)
    if p.returncode != 0:
        raise RuntimeError("exporter build failed:\n" + (p.stderr or p.stdout)[-3000:])
    log("exporter build (%s) %.1fs" % (profile, time.time() - t0))
    binp = os.path.join(slot, "target", "release" if profile == "release" else "debug", "llgx")
    _built[key] = binp
    return binp


def run_jobs(jobs, profile="release", timeout=3600, chunk=64, workers=8):
    """Run jobs (list of dicts) through the exporter; returns list of results in order."""
    from concurrent.futures import ThreadPoolExecutor
    binp = build(profile)
    for i, j in enumerate(jobs):
        j["id"] = i
    chunks = [jobs[i:i + chunk] for i in range(0, len(jobs), chunk)]
    results = [None] * len(jobs)

    def work(ch):
        inp = "\n".join(json.dumps(j) for j in ch) + "\n"
        p = subprocess.run([binp], input=inp, capture_output=True, text=True, timeout=timeout, env=base_env())
        outs = []
        for line in p.stdout.splitlines():
            line = line.strip()
            if line.startswith("{"):
                try:
                    outs.append(json.loads(line))
                except Exception:
                    pass
        return ch, outs, p.returncode, p.stderr[-500:]

    with ThreadPoolExecutor(max_workers=workers) as ex:
        for ch, outs, rc, err in ex.map(work, chunks):
            got = {o.get("id"): o for o in outs}
            for j in ch:
                r = got.get(j["id"])
                if r is None:
                    r = {"ok": False, "error": "exporter process died (rc=%s): %s" % (rc, err), "crash": True}
                results[j["id"]] = r
    return results
