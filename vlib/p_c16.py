"""C16 — vocabulary handling (trie, token sets) matches a naive model. Engine E1 (Kani/CBMC)."""
from . import e1, toktrie_props as tp
from .common import Timer, log, tier, seed, EXIT_INCONCLUSIVE
from .e1check import E1Outcome, judge, summarize, finish

FUNCTIONS = [
    "toktrie::svob::SimpleVob::{set,get,is_allowed,index,allow_token,disallow_token,allow_token_unchecked,allow_range,negated,set_all,"
    "or,and,sub,or_minus,is_zero,and_is_zero,eq,first_bit_set,first_bit_set_here_and_in,num_set,iter(SimpleVobIter::next),"
    "iter_set_entries,iter_unset_entries,iter_entries,trim_trailing_zeros,write_to,alloc,alloc_ones,alloc_with_capacity,resize,from_slice}",
    "toktrie::bytes::write_u32s_as_le_bytes",
    "toktrie::toktree::TrieNode::{new,byte,token_id,num_parents,subtree_size,set_subtree_size}",
    "toktrie::toktree::TokTrie::{add_bias,add_bias_inner,has_valid_extensions,child_at_byte,child_at_bytes,node_children,node_offset,"
    "alloc_token_set,token,token_id,token_id_at_bytes,prefix_token_id,all_prefixes,is_special_token,token_len}",
    "toktrie::toktree::FixedRecognizer",
    "toktrie::toktree::TokTrie::{from,filter} + TrieBuilder (executed natively; their OUTPUT tables are the constants the walk is checked on)",
]

ASSUMPTIONS = [
    "bounded model checking (Kani 0.68 / CBMC 6.11, cadical), unwinding assertions ON: every claim is for the stated bounds only",
    "bit vectors: <= 3 words (<= 96 bits), logical size symbolic over every value compatible with the word count; alloc/alloc_ones/from_slice and the iter_* callbacks at concrete boundary sizes with symbolic contents",
    "trie walk: vocabulary families of 4-13 tokens over <= 6 byte values (fixed stress cases + VERIF_SEED random families), acceptor = every transition table with S states (S=2; S=3 on small alphabets in thorough) over the alphabet classes, start prefix of 0/1/2 symbolic bytes",
    "the trie BUILDER is not executed symbolically (does not terminate under CBMC): tables are produced on this run by the real TokTrie::from/filter natively and checked against the generator's word list, never against trie.token()",
    "token_id over every byte string of <= 3 bytes over the family alphabet; token(t)/token_len(t) for every u32 id",
    "outside the claim: greedy_tokenize / chop_tokens / sorted_tokens (12.9 GB at 400 s on a 4-word vocabulary), tokenizer adapters (toktrie_hf_tokenizers, toktrie_tiktoken, tokenizer_json.rs), vocabularies larger than the families",
    "allocation failure is outside the claim (--no-malloc-may-fail)",
]


def run():
    tm = Timer()
    t = tier()
    out = E1Outcome()
    try:
        ov, fams, dumped, inst = tp.prepare_overlay("c16", {"walk", "hasext", "roundtrip", "toklen"})
    except RuntimeError as ex:
        out.inconclusive.append(str(ex)[:2000])
        return finish("C16", out, tm, "model_checking", dict(evaluations=1, distinct_nontrivial=0, samples=["build failed"], tier=t), ASSUMPTIONS)
    try:
        specs = tp.svob_specs(t) + inst.specs
        names = [s["name"] for s in specs]
        res, logp, wall, build_failed = e1.run_kani(ov, "toktrie", names, jobs=14, harness_timeout_s=900 if t == "quick" else 2400, logname="c16")
        if build_failed:
            import subprocess
            tail = subprocess.run("grep -v '^warning' %s | grep -A8 '^error' | head -60" % logp, shell=True, capture_output=True, text=True).stdout
            out.inconclusive.append("kani build failed (harness no longer compiles against /repo?):\n" + tail)
        else:
            judge("C16", ov, "toktrie", specs, res, out)
        summ = summarize(out)
        main = [f for f in fams if not f.get("is_sb")]
        cov = dict(
            tier=t,
            evaluations=summ["harnesses_run"],
            distinct_nontrivial=summ["harnesses_with_all_covers"],
            rule="one evaluation = one Kani proof harness decided by CBMC over all symbolic inputs within its bound; non-trivial = SUCCESSFUL with "
                 "every kani::cover! witness of the interesting region SATISFIED (witness-must-fail harnesses are counted as run, not as non-trivial)",
            samples=[dict(harness=s["name"], family=s["family"]) for s in specs[:6]] +
                    [dict(vocabulary=f["name"], words=[bytes(w).decode("latin-1") for w in f["words"]]) for f in main[:9]],
            functions_encoded=FUNCTIONS,
            bounds=dict(svob_words_max=3, acceptor_states=[2, 3], start_len=[0, 1, 2], vocab_families=[f["name"] for f in main]),
            queries=summ["cbmc_checks"], covers="%d/%d" % (summ["covers_satisfied"], summ["covers_total"]),
            solver_s=summ["solver_s"], symex_s=summ["symex_s"], kani_wall_s=round(wall, 1),
            per_harness=summ["per_harness"], stubs=[],
        )
        return finish("C16", out, tm, "model_checking", cov, ASSUMPTIONS)
    finally:
        ov.cleanup()
