from .p_c0607 import run_for


def run():
    return run_for("C06")
