"""C02 — acceptance depends on the bytes, not on the token split (trie layer). E1: for every byte-stack acceptor, a multi-byte token is in
add_bias(V) exactly when its bytes fed one at a time through the single-byte vocabulary are allowed at every step."""
from .common import Timer, tier
from .e1check import E1Outcome, e1_coverage, finish, run_toktrie_groups

ASSUMPTIONS = [
    "decided: the second sentence of C02 at the layer where it is implemented (TokTrie::add_bias / add_bias_inner pop-count alignment): the real add_bias on vocabulary V vs a loop of real add_bias calls on the single-byte vocabulary B, for every transition-table acceptor with 2 (3) states; tokens that are duplicates, prefixes of others or end inside a UTF-8 character are in the families",
    "NOT decided: that ParserRecognizer is such a function of its byte stack (lexeme boundaries inside a token, row reuse), and the first sentence (same continuations after two tokenisations): they need the Earley interpreter under the solver",
    "trie tables come from the real builder run natively on this tree; the oracle uses the generator's word list",
]


def run():
    tm = Timer()
    out = E1Outcome()
    t = tier()

    def sel(s):
        n = s["name"]
        return "c02_bytes" in n or ("k16_3_walk" in n and "_l0" in n and ("utf8" in n or "dups" in n or "tiny" in n))
    info, fams = run_toktrie_groups("C02", "c02", {"c02", "walk"}, out, select=sel, harness_timeout_s=1200)
    cov = e1_coverage(out, [dict(vocabulary=f["name"], words=[bytes(w).decode("latin-1") for w in f["words"]]) for f in fams[:7]] or [dict(note="none")],
                      ["toktrie::toktree::TokTrie::{add_bias, add_bias_inner, alloc_token_set}", "TrieNode::{byte, token_id, num_parents, subtree_size}",
                       "TokTrie::from (natively, as producer of the V and B tables)"],
                      dict(acceptor_states=[2, 3], vocab_families=[f["name"] for f in fams]), dict(tier=t, **info))
    return finish("C02", out, tm, "model_checking", cov, ASSUMPTIONS)
