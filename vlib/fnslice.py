"""Function-level source slices: whole `fn` items are cut verbatim from /repo's CURRENT source and re-hosted in an `impl` of a mock
type whose fields and collaborators have the same names as the real ones (the harness module shadows `ensure!`, `infoln!`, `warn!`,
`format!`, `anyhow`, `Instant`, ... with local definitions, so the function text itself is not edited).

A missing function raises SliceError -> the check is inconclusive (exit 2), never a violation."""
import re


class SliceError(Exception):
    pass


def region(text, header):
    """the text of the top-level block that starts with the line `header` (e.g. `impl ParserState {`) up to its closing `}` in column 0"""
    ms = [m for m in re.finditer(r"^%s\s*$" % re.escape(header), text, re.M)]
    if len(ms) != 1:
        raise SliceError("block header `%s` found %d times" % (header, len(ms)))
    m2 = re.compile(r"^\}\s*$", re.M).search(text, ms[0].end())
    if not m2:
        raise SliceError("end of block `%s` not found" % header)
    return text[ms[0].start():m2.end()]


def extract_fn(text, name, indent=4, required_substrings=(), within=None):
    """the complete item `fn <name>` at the given indentation (attributes and doc comments are left behind)."""
    if within:
        text = region(text, within)
    pad = " " * indent
    pat = re.compile(r"^%s(?:pub(?:\([a-z]+\))? )?(?:unsafe )?(?:extern \"C\" )?fn %s\b" % (re.escape(pad), re.escape(name)), re.M)
    ms = list(pat.finditer(text))
    if len(ms) != 1:
        raise SliceError("function `%s` found %d times at indentation %d" % (name, len(ms), indent))
    start = ms[0].start()
    end_pat = re.compile(r"^%s\}\s*$" % re.escape(pad), re.M)
    m2 = end_pat.search(text, ms[0].end())
    if not m2:
        raise SliceError("end of function `%s` not found" % name)
    body = text[start:m2.end()]
    # the header must open a brace before the closing line we found
    if "{" not in body:
        raise SliceError("function `%s` has no body" % name)
    if body.count("{") != body.count("}"):
        # braces inside string literals / format strings come in pairs in this code base; anything else means we cut wrongly
        raise SliceError("function `%s`: unbalanced braces in the cut text" % name)
    for s in required_substrings:
        if s not in body:
            raise SliceError("function `%s` no longer contains `%s`" % (name, s))
    # visibility is irrelevant inside the mock impl
    body = re.sub(r"^%s(?:pub(?:\([a-z]+\))? )?(unsafe )?(?:extern \"C\" )?fn " % re.escape(pad), lambda m: pad + (m.group(1) or "") + "fn ", body, count=1)
    return body


def impl_block(type_header, fns):
    return "#[allow(unused_variables, unused_mut, dead_code, clippy::all)]\n%s {\n%s\n}\n" % (type_header, "\n\n".join(fns))
