"""Seeded generator of JSON schemas in the structural subset + reference CFG of the compact canonical serialisations of exactly the
instances that validate (built from instance semantics, not from llguidance's compiler). Terminals are atoms (strings)."""
import json
import random

ADDKEY = "\x00ADDKEY"


def ser(v):
    return json.dumps(v, separators=(",", ":"), ensure_ascii=False)


def atoms_of_value(v):
    """atom sequence of the compact serialisation of a JSON value"""
    if isinstance(v, dict):
        out = ["{"]
        for i, (k, x) in enumerate(v.items()):
            if i:
                out.append(",")
            out += [ser(k), ":"] + atoms_of_value(x)
        return out + ["}"]
    if isinstance(v, list):
        out = ["["]
        for i, x in enumerate(v):
            if i:
                out.append(",")
            out += atoms_of_value(x)
        return out + ["]"]
    return [ser(v)]


class RefCFG:
    def __init__(self, root):
        self.root = root
        self.rules = []
        self.cnt = 0
        self.defs = {}
        self.atoms = set()

    def fresh(self, p="n"):
        self.cnt += 1
        return "%s%d" % (p, self.cnt)

    def T(self, a):
        self.atoms.add(a)
        return ("T", a)

    def schema(self, s):
        """returns nonterminal name deriving the serialisations of valid instances of s"""
        if s is False:
            # no instance validates: a nonterminal without rules
            return self.fresh("false")
        if s is True or s == {}:
            raise ValueError("unconstrained schema not in the subset")
        if "$ref" in s:
            name = s["$ref"]
            if name == "#":
                return "ROOT"
            key = name.split("/")[-1]
            return "DEF_" + key
        n = self.fresh()
        if "const" in s:
            self.rules.append((n, [self.T(a) for a in atoms_of_value(s["const"])]))
        elif "enum" in s:
            for v in s["enum"]:
                self.rules.append((n, [self.T(a) for a in atoms_of_value(v)]))
        elif "anyOf" in s:
            for x in s["anyOf"]:
                self.rules.append((n, [("N", self.schema(x))]))
        elif s.get("type") == "null":
            self.rules.append((n, [self.T("null")]))
        elif s.get("type") == "boolean":
            self.rules.append((n, [self.T("true")]))
            self.rules.append((n, [self.T("false")]))
        elif s.get("type") == "object":
            self.obj(n, s)
        elif s.get("type") == "array":
            self.arr(n, s)
        else:
            raise ValueError("schema outside the subset: %r" % (s,))
        return n

    def obj(self, n, s):
        props = list((s.get("properties") or {}).items())
        req = set(s.get("required") or [])
        addl = s.get("additionalProperties", False)
        min_p = s.get("minProperties", 0)
        max_p = s.get("maxProperties", None)
        names = {}
        av = self.schema(addl) if addl is not False else None

        def kv():
            return [self.T(ADDKEY), self.T(":"), ("N", av)]

        def M(i, cnt):
            """members from declared position i on, `cnt` members already emitted (a comma is needed iff cnt > 0)"""
            key = (i, cnt)
            if key in names:
                return names[key]
            nm = self.fresh("m")
            names[key] = nm
            if max_p is not None and cnt > max_p:
                return nm  # dead: no rules
            if i == len(props):
                need = max(0, min_p - cnt)
                room = None if max_p is None else max_p - cnt
                if addl is False:
                    if need == 0:
                        self.rules.append((nm, []))
                    return nm

                def members(j, first_comma):
                    out = []
                    for t in range(j):
                        if t or first_comma:
                            out.append(self.T(","))
                        out += kv()
                    return out
                if room is not None:
                    for j in range(need, room + 1):
                        self.rules.append((nm, members(j, cnt > 0)))
                else:
                    tail = self.fresh("a")
                    self.rules.append((tail, []))
                    self.rules.append((tail, [self.T(",")] + kv() + [("N", tail)]))
                    if need == 0:
                        self.rules.append((nm, []))
                        self.rules.append((nm, members(1, cnt > 0) + [("N", tail)]))
                    else:
                        self.rules.append((nm, members(need, cnt > 0) + [("N", tail)]))
                return nm
            k, ps = props[i]
            v = self.schema(ps)
            member = ([self.T(",")] if cnt > 0 else []) + [self.T(ser(k)), self.T(":"), ("N", v)]
            self.rules.append((nm, member + [("N", M(i + 1, cnt + 1))]))
            if k not in req:
                self.rules.append((nm, [("N", M(i + 1, cnt))]))
            return nm

        self.rules.append((n, [self.T("{"), ("N", M(0, 0)), self.T("}")]))

    def arr(self, n, s):
        prefix = s.get("prefixItems") or []
        items = s.get("items", None)
        lo = s.get("minItems", 0)
        hi = s.get("maxItems", None)
        if items is False or items is None and False:
            cap = len(prefix)
            hi = cap if hi is None else min(hi, cap)
        pre_nts = [self.schema(p) for p in prefix]
        it = None
        if items is not False and items is not None:
            it = self.schema(items)
        elif items is None:
            raise ValueError("arrays without items are outside the subset")
        # explicit alternatives for each length k (bounded); unbounded tail via star
        def body(k):
            out = []
            for j in range(k):
                if j:
                    out.append(self.T(","))
                out.append(("N", pre_nts[j] if j < len(pre_nts) else it))
            return out
        if hi is not None:
            for k in range(lo, hi + 1):
                if k > len(pre_nts) and it is None:
                    break
                self.rules.append((n, [self.T("[")] + body(k) + [self.T("]")]))
        else:
            if it is None:
                for k in range(lo, len(pre_nts) + 1):
                    self.rules.append((n, [self.T("[")] + body(k) + [self.T("]")]))
            else:
                base = max(lo, len(pre_nts))
                for k in range(lo, base):
                    self.rules.append((n, [self.T("[")] + body(k) + [self.T("]")]))
                star = self.fresh("s")
                self.rules.append((star, []))
                self.rules.append((star, [self.T(","), ("N", it), ("N", star)]))
                if base == 0:
                    self.rules.append((n, [self.T("["), self.T("]")]))
                    self.rules.append((n, [self.T("["), ("N", it), ("N", star), self.T("]")]))
                else:
                    self.rules.append((n, [self.T("[")] + body(base) + [("N", star), self.T("]")]))


FIN_ATOMS = [1, 7, -1, "x", "a", True, None]


def finite_reference(schema):
    """schemas whose instances form a finite set inside a known candidate pool (enum / const with sibling keywords, allOf of closed
    tuples): the reference is the list of candidates that python jsonschema validates — instance semantics, literally"""
    import itertools
    import jsonschema
    pool = list(FIN_ATOMS) + [False]     # {"type": "boolean"} leaves admit false as well
    cands = list(pool) + [[]]
    for n in (1, 2, 3):
        cands += [list(t) for t in itertools.product(pool, repeat=n)]

    def collect(s):
        if isinstance(s, dict):
            if "const" in s:
                cands.append(s["const"])
            for v in s.get("enum", []) if isinstance(s.get("enum"), list) else []:
                cands.append(v)
            for v in s.values():
                collect(v)
        elif isinstance(s, list):
            for v in s:
                collect(v)
    collect(schema)
    # objects (finite object schemas: keyword intersections over properties / patternProperties with one closed branch): every subset of
    # the declared keys in every order — soundness only needs a superset of the orders the engine may emit
    okeys = []

    def keys_of(s):
        if isinstance(s, dict):
            for k in (s.get("properties") or {}):
                if k not in okeys:
                    okeys.append(k)
            for v in s.values():
                keys_of(v)
        elif isinstance(s, list):
            for v in s:
                keys_of(v)
    keys_of(schema)
    if okeys and len(okeys) <= 3:
        cands.append({})
        for n in range(1, len(okeys) + 1):
            for ks in itertools.permutations(okeys, n):
                for vs in itertools.product(pool, repeat=n):
                    cands.append(dict(zip(ks, vs)))
    val = jsonschema.Draft202012Validator(schema)
    rb = RefCFG(schema)
    seen = set()
    for v in cands:
        k = ser(v)
        if k in seen:
            continue
        seen.add(k)
        if val.is_valid(v):
            rb.rules.append(("ROOT", [rb.T(a) for a in atoms_of_value(v)]))
    return rb.rules, "ROOT", rb.atoms


def reference(schema):
    """returns (rules, start, atoms)"""
    if schema.get("x-verif-finite"):
        return finite_reference({k: v for k, v in schema.items() if not k.startswith("x-verif-")})
    rb = RefCFG(schema)
    defs = schema.get("$defs") or {}
    body = {k: v for k, v in schema.items() if k != "$defs"}
    top = rb.schema(body)
    rb.rules.append(("ROOT", [("N", top)]))
    for k, d in defs.items():
        rb.rules.append(("DEF_" + k, [("N", rb.schema(d))]))
    return rb.rules, "ROOT", rb.atoms


# ------------------------------------------------------------------ generator
KEYS = ["a", "b", "c", "k"]
# property names whose JSON spelling is not the obvious one: combining marks, control characters (\b has a short escape, DEL has none),
# quote and backslash, no-break space, Thai vowel signs
ODD_KEYS = ["e\u0301", "\b", "\u007f", "q\"t", "b\\s", "\u00a0x", "\u0e2a\u0e31", "k"]


def gen_leaf(rng):
    r = rng.random()
    if r < 0.2:
        return {"type": "null"}
    if r < 0.4:
        return {"type": "boolean"}
    if r < 0.6:
        return {"const": rng.choice([1, 7, "x", True, None, "yy"])}
    if r < 0.8:
        return {"enum": rng.sample([1, 2, 3], rng.randint(1, 2)), "type": "integer"}
    return {"enum": rng.sample(["x", "y", "zz"], rng.randint(1, 2))}


def gen_schema(rng, depth=0, defs=None):
    r = rng.random()
    if depth >= 2 or r < 0.3:
        if defs and rng.random() < 0.3:
            return {"$ref": "#/$defs/" + rng.choice(defs)}
        return gen_leaf(rng)
    if r < 0.6:
        nprops = rng.randint(0, 3)
        keys = rng.sample(KEYS if rng.random() < 0.8 else ODD_KEYS, nprops)
        props = {k: gen_schema(rng, depth + 1, defs) for k in keys}
        req = [k for k in keys if rng.random() < 0.5]
        s = {"type": "object", "properties": props, "required": req}
        a = rng.random()
        if a < 0.6:
            s["additionalProperties"] = False
        else:
            s["additionalProperties"] = gen_leaf(rng)
        if rng.random() < 0.3:
            # min/maxProperties is only supported when every declared key is required
            req = list(keys)
            s["required"] = req
            nreq = len(req)
            if s["additionalProperties"] is not False:
                s["maxProperties"] = nreq + rng.choice([0, 0, 1, 2])
                if rng.random() < 0.4:
                    s["minProperties"] = rng.randint(0, s["maxProperties"])
            else:
                s["maxProperties"] = rng.randint(max(nreq, 0), max(nreq, nprops))
        elif s["additionalProperties"] is not False and props and rng.random() < 0.3:
            # unsatisfiable optional properties: the key is forbidden altogether, also as an additional one
            opt = [k for k in keys if k not in req]
            if rng.random() < 0.5:
                opt, s["required"] = list(keys), []
            for k in opt:
                props[k] = False
        if not props:
            del s["properties"]
            del s["required"]
        return s
    if r < 0.85:
        s = {"type": "array"}
        npre = rng.choice([0, 0, 1, 2])
        if npre:
            s["prefixItems"] = [gen_schema(rng, depth + 1, defs) for _ in range(npre)]
        if npre and rng.random() < 0.4:
            s["items"] = False
        else:
            s["items"] = gen_schema(rng, depth + 1, defs)
        lo = rng.choice([0, 0, 1, 2])
        if rng.random() < 0.7:
            s["minItems"] = lo
        if rng.random() < 0.7:
            s["maxItems"] = lo + rng.randint(0, 3)
        if npre and rng.random() < 0.2:
            # an unsatisfiable prefix item at an optional position caps the array length there
            j = rng.randint(min(s.get("minItems", 0), npre - 1), npre - 1)
            if j >= s.get("minItems", 0):
                s["prefixItems"][j] = False
                if rng.random() < 0.6:
                    s.pop("maxItems", None)
        if s.get("items") is False:
            cap = npre
            if s.get("minItems", 0) > cap:
                s["minItems"] = cap
            if "maxItems" in s and s["maxItems"] < s.get("minItems", 0):
                s["maxItems"] = s.get("minItems", 0)
        return s
    return {"anyOf": [gen_schema(rng, depth + 1, defs) for _ in range(rng.randint(2, 3))]}


def gen_finite(rng):
    """finite-language array schemas built by keyword intersection (sibling keywords next to enum/const, allOf of closed tuples)"""
    A = FIN_ATOMS
    # finite leaves only (an unbounded integer / string lexeme has no finite atom set)
    leafs = [{"enum": [1, 7, -1]}, {"enum": ["x", "a"]}, {"type": "boolean"}, {"type": "null"}, {"enum": [1, "x"]}, {"enum": [1, 7]}, {"const": 7}, {"enum": [True, None, "a"]}]
    form = rng.randint(0, 3)
    if form == 0:
        arrs = [[rng.choice(A) for _ in range(rng.randint(0, 3))] for _ in range(rng.randint(2, 4))]
        s = {"enum": arrs, "type": "array"} if rng.random() < 0.5 else {"type": "array", "enum": arrs}
        if rng.random() < 0.5:
            s["items"] = rng.choice(leafs)
        if rng.random() < 0.3:
            s["maxItems"] = rng.randint(0, 2)
    elif form == 1:
        arr = [rng.choice(A) for _ in range(rng.randint(1, 3))]
        s = {"const": arr, "type": "array", "items": rng.choice(leafs)} if rng.random() < 0.5 else {"type": "array", "items": rng.choice(leafs), "const": arr}
    elif form == 2:
        t1 = {"type": "array", "prefixItems": [rng.choice(leafs) for _ in range(rng.randint(1, 3))], "items": False}
        t2 = {"type": "array", "prefixItems": [rng.choice(leafs) for _ in range(rng.randint(0, 2))]}
        if rng.random() < 0.3:
            t2["minItems"] = rng.randint(0, 2)
        s = {"allOf": [t1, t2] if rng.random() < 0.5 else [t2, t1]}
    else:
        t1 = {"type": "array", "prefixItems": [rng.choice(leafs) for _ in range(rng.randint(1, 2))], "items": rng.choice(leafs), "maxItems": rng.randint(1, 3)}
        t2 = {"type": "array", "prefixItems": [rng.choice(leafs) for _ in range(rng.randint(0, 3))], "items": False}
        s = {"allOf": [t1, t2] if rng.random() < 0.5 else [t2, t1]}
    s["x-verif-finite"] = True
    return s


def gen_finite_obj(rng):
    """finite object schemas built by keyword intersection: patternProperties in one allOf branch, the matching names declared in another
    (closed) branch, in either order; or both in one object. One branch is closed and declares every admissible key, so the instance set is
    finite and no key can repeat. Soundness (C06) only: allOf / patternProperties are outside C07's subset."""
    leafs = [{"enum": [1, "x"]}, {"enum": ["x", "a"]}, {"type": "boolean"}, {"type": "null"}, {"const": 7}, {"enum": [True, None, "a"]}, {"enum": [1, 7]}]
    keys = rng.sample(["x-id", "a", "x-no"], rng.randint(1, 3))
    props = {k: rng.choice(leafs) for k in keys}
    closed = {"type": "object", "properties": props, "additionalProperties": False}
    req = [k for k in keys if rng.random() < 0.4]
    if req:
        closed["required"] = req
    pat = rng.choice(["^x-", "^x-id$", "^(x-id|a)$", "^a$", "id$", "^x-n", "."])
    pp = {"type": "object", "patternProperties": {pat: rng.choice(leafs)}}
    if rng.random() < 0.3:
        pp["patternProperties"][rng.choice(["o$", "^a", "-"])] = rng.choice(leafs)
    form = rng.randint(0, 3)
    if form == 0:
        s = {"allOf": [pp, closed]}
    elif form == 1:
        s = {"allOf": [closed, pp]}
    elif form == 2:
        s = {"type": "object", "allOf": [pp, closed]}
    else:
        # one object: only patterns that are used up by the declared names (a pattern key that is not declared could repeat)
        s = dict(closed)
        s["patternProperties"] = {"^(%s)$" % "|".join(keys): rng.choice(leafs)}
    s["x-verif-finite"] = True
    s["x-verif-c06-only"] = True
    return s


def gen_case(rng):
    r0 = rng.random()
    if r0 < 0.08:
        return gen_finite_obj(rng)
    if r0 < 0.24:
        return gen_finite(rng)
    use_defs = rng.random() < 0.3
    defs = ["n", "t"] if use_defs else None
    s = gen_schema(rng, 0, defs)
    if use_defs:
        # recursive definitions with a base case
        s = dict(s)
        s["$defs"] = {
            "n": {"anyOf": [{"type": "null"}, {"type": "array", "items": {"$ref": "#/$defs/n"}, "maxItems": 2}]},
            "t": {"type": "object", "properties": {"v": gen_leaf(rng), "c": {"$ref": "#/$defs/t"}}, "required": ["v"], "additionalProperties": False},
        }
    return s


HAND = [
    {"type": "object", "properties": {"e\u0301": {"type": "null"}, "\b": {"const": 1}, "\u0e2a\u0e31": {"type": "boolean"}}, "required": ["\b"], "additionalProperties": False},
    {"const": {"q\"t": 1, "\u007f": [True]}},
    {"type": "object", "properties": {"a": False}, "additionalProperties": {"type": "null"}},
    {"type": "object", "properties": {"a": False, "b": False}, "additionalProperties": {"type": "boolean"}, "maxProperties": 2},
    {"type": "object", "properties": {"a": False, "b": {"const": 1}}, "required": ["b"], "additionalProperties": {"type": "null"}},
    {"enum": [[], [1, 7], ["a"]], "type": "array", "x-verif-finite": True},
    {"const": [1, 7, -1], "type": "array", "items": {"enum": [1, 7, -1]}, "x-verif-finite": True},
    {"allOf": [{"type": "array", "prefixItems": [{"enum": [1, 7, -1]}, {"enum": ["x", "a"]}], "items": False}, {"type": "array", "prefixItems": [{"enum": [1, 7]}]}], "x-verif-finite": True},
    {"type": "array", "prefixItems": [{"type": "boolean"}, False], "items": {"type": "null"}},
    {"type": "array", "prefixItems": [{"const": 1}, False, {"type": "null"}], "items": {"enum": ["x"]}, "minItems": 1},
    {"type": "object", "properties": {"a": {"const": 1}, "b": {"type": "null"}}, "required": ["a", "b"], "additionalProperties": {"type": "boolean"}, "maxProperties": 2},
    {"type": "object", "properties": {"a": {"const": 1}}, "required": ["a"], "additionalProperties": {"type": "null"}, "minProperties": 2, "maxProperties": 3},

    {"type": "object", "properties": {"a": {"type": "integer", "enum": [1, 2]}, "b": {"anyOf": [{"type": "null"}, {"type": "array", "items": {"enum": ["x", "y"]}, "maxItems": 2}]},
                                      "c": {"const": {"k": [1, "z"]}}}, "required": ["a"], "additionalProperties": {"type": "boolean"}},
    {"type": "array", "prefixItems": [{"const": 1}, {"type": "boolean"}], "items": False, "minItems": 1},
    {"type": "array", "prefixItems": [{"type": "null"}], "items": {"enum": ["x"]}, "minItems": 0, "maxItems": 3},
    {"type": "object", "properties": {"a": {"type": "null"}, "b": {"type": "null"}, "c": {"type": "null"}}, "required": ["b"], "additionalProperties": False},
    {"type": "object", "properties": {"a": {"type": "null"}, "b": {"type": "null"}}, "required": [], "additionalProperties": {"const": 1}},
    {"anyOf": [{"type": "object", "properties": {"a": {"const": 1}}, "required": ["a"], "additionalProperties": False}, {"type": "array", "items": {"type": "null"}, "maxItems": 1}]},
    {"$defs": {"n": {"anyOf": [{"type": "null"}, {"type": "array", "items": {"$ref": "#/$defs/n"}, "maxItems": 2}]}}, "$ref": "#/$defs/n"},
    {"type": "object", "additionalProperties": {"type": "boolean"}},
    {"type": "array", "items": {"type": "object", "properties": {"k": {"type": "boolean"}}, "required": ["k"], "additionalProperties": False}, "minItems": 1, "maxItems": 2},
]
