"""C09 — repetition counts and length bounds are exact. E2: automaton level (regex / terminal / JSON string length) through the C04
product encoding against an independent reference; rule level and JSON array/object sizes through the CYK encoding against a reference CFG."""
import json
import random
import time

import z3

from . import e2, gram, p_c04, rxref
from .automaton import Aut, single_string
from .common import (EXIT_INCONCLUSIVE, EXIT_OK, EXIT_VIOLATION, Timer, log, match_known, save_replay, seed, settle, tier, write_evidence)
from .rxref import Alt, Cat, Cls, Lit, Rep


def json_char():
    o = ord
    plain = Cls([(0, 0x1F), (o('"'), o('"')), (o("\\"), o("\\")), (0x7F, 0x7F)], neg=True)
    hexd = Cls([(o("0"), o("9")), (o("a"), o("f")), (o("A"), o("F"))])
    esc = Cat([Lit("\\"), Alt([Cls([(o(c), o(c)) for c in 'nrbtf\\"']),
                               Cat([Lit("u00"), Cls([(o("0"), o("1"))]), hexd]),
                               Cat([Lit("u007"), Cls([(o("F"), o("F")), (o("f"), o("f"))])])])])
    return Alt([plain, esc])


STR_ALPHA = [0x22, 0x5C, ord("a"), ord("n"), ord("u"), ord("0"), ord("1"), ord("7"), ord("f"), ord("F"), ord("b"), 0xC3, 0xA9, 0xE2, 0x82, 0xAC, 0x0A]


def pairs(tr, rng):
    B = 14 if tr == "quick" else 40
    ps = [(m, n) for m in range(0, B + 1) for n in range(m, B + 1) if n >= 1]
    if tr == "quick":
        must = [(0, 1), (0, 11), (0, 12), (0, 13), (2, 14), (1, 13), (3, 3), (8, 8), (9, 9), (12, 12), (0, 8), (4, 12), (13, 14)]
        rest = [p for p in ps if p not in must]
        ps = must + rng.sample(rest, 22)
    return ps


def gen_cases(tr, sd):
    rng = random.Random(900 + sd)
    cases = []
    ps = pairs(tr, rng)
    unb = [(0, None), (1, None), (2, None), (5, None), (9, None), (13, None)] + ([(m, None) for m in range(0, 30, 3)] if tr != "quick" else [])
    for (m, n) in ps + unb:
        node = Rep(Lit("ab"), m, n)
        rep = "{%d,}" % m if n is None else "{%d,%d}" % (m, n)
        # regex level
        cases.append(dict(level="regex", mode="aut", kind="regex", text="(ab)%s" % rep, node=node, mn=(m, n)))
        # terminal level (Lark): A{m,n}
        cases.append(dict(level="terminal", mode="aut", kind="lark", text="start: T\nT: A%s\nA: \"ab\"\n" % rep, node=node, mn=(m, n)))
    for (m, n, txt) in [(0, None, "*"), (1, None, "+"), (0, 1, "?")]:
        node = Rep(Lit("ab"), m, n)
        cases.append(dict(level="regex", mode="aut", kind="regex", text="(ab)%s" % txt, node=node, mn=(m, n)))
        cases.append(dict(level="terminal", mode="aut", kind="lark", text="start: T\nT: A%s\nA: \"ab\"\n" % txt, node=node, mn=(m, n)))
        cases.append(dict(level="rule", mode="cyk", kind="lark", text="start: a%s | \"y\"\na: \"x\"\n" % txt, elt=["x"], mn=(m, n), alt_y=True))
    # rule level
    # rule level goes through the cubic CYK encoding: bound the counts (thorough: n <= 22, a sample of 140 pairs)
    if tr != "quick":
        small = [p for p in ps if p[1] <= 22]
        rl = rng.sample(small, min(140, len(small)))
    else:
        rl = ps[:13] + rng.sample(ps[13:], 6)
    for (m, n) in rl + unb[:4]:
        rep = "{%d,}" % m if n is None else "{%d,%d}" % (m, n)
        cases.append(dict(level="rule", mode="cyk", kind="lark", text="start: a%s | \"y\"\na: \"x\"\n" % rep, elt=["x"], mn=(m, n), alt_y=True))
        if (n or m) <= (8 if tr == "quick" else 12):
            cases.append(dict(level="rule", mode="cyk", kind="lark", text="start: (a b)%s\na: \"x\"\nb: \"y\"\n" % rep, elt=["x", "y"], mn=(m, n), alt_y=False))
    # nested (a{2,3}){m,n}
    for (m, n) in [(1, 2), (2, 3), (0, 3), (2, 2)] + ([(3, 5), (1, 6)] if tr != "quick" else []):
        cases.append(dict(level="rule-nested", mode="cyk", kind="lark", text="start: (a{2,3}){%d,%d} | \"y\"\na: \"x\"\n" % (m, n), elt=["x"], mn=(m, n), nested=(2, 3), alt_y=True))
    # JSON minItems / maxItems
    jp = [(0, 0), (0, 1), (1, 1), (0, 3), (2, 5), (3, 3), (1, 6)] if tr == "quick" else [(m, n) for m in range(0, 9) for n in range(m, 13)]
    for (m, n) in jp:
        cases.append(dict(level="json-items", mode="cyk-json-array", kind="json", schema={"type": "array", "items": {"const": 1}, "minItems": m, "maxItems": n}, mn=(m, n)))
    for m in ([2] if tr == "quick" else [0, 1, 2, 5]):
        cases.append(dict(level="json-items", mode="cyk-json-array", kind="json", schema={"type": "array", "items": {"const": 1}, "minItems": m}, mn=(m, None)))
    # JSON min/maxProperties with additionalProperties
    op = [(0, 1), (1, 2), (2, 2), (0, 3)] if tr == "quick" else [(m, n) for m in range(0, 5) for n in range(max(m, 1), 7)]
    for (m, n) in op:
        cases.append(dict(level="json-props", mode="cyk-json-object", kind="json", schema={"type": "object", "additionalProperties": {"const": 1}, "minProperties": m, "maxProperties": n}, mn=(m, n)))
    # ... and with declared required properties: the budget left for additional members is maxProperties - #required
    rq = [(1, 0, 1), (1, 1, 1), (2, 0, 2), (2, 2, 3), (1, 0, 2), (2, 1, 2)] if tr == "quick" else [(r, m, n) for r in (1, 2, 3) for n in range(r, r + 3) for m in range(0, n + 1)]
    for (r, m, n) in rq:
        props = {k: {"const": 1} for k in ["a", "b", "c"][:r]}
        cases.append(dict(level="json-props-required", mode="cyk-json-object", kind="json", mn=(m, n), required=r,
                          schema={"type": "object", "properties": props, "required": list(props), "additionalProperties": {"const": 1}, "minProperties": m, "maxProperties": n}))
    # JSON minLength / maxLength
    sp = [(0, 0), (0, 1), (1, 1), (0, 3), (2, 4), (3, 3), (1, 6)] if tr == "quick" else [(m, n) for m in range(0, 8) for n in range(m, 12)]
    for (m, n) in sp:
        node = Cat([Lit('"'), Rep(json_char(), m, n), Lit('"')])
        cases.append(dict(level="json-length", mode="aut", kind="json", schema={"type": "string", "minLength": m, "maxLength": n}, node=node, mn=(m, n), alphabet=STR_ALPHA))
    for m in ([2] if tr == "quick" else [0, 1, 3, 6]):
        node = Cat([Lit('"'), Rep(json_char(), m, None), Lit('"')])
        cases.append(dict(level="json-length", mode="aut", kind="json", schema={"type": "string", "minLength": m}, node=node, mn=(m, None), alphabet=STR_ALPHA))
    # enum / const members measured against length bounds: characters, not bytes
    members = ["x", "é", "ab", "日本", "a€", "😀", "abc", ""]
    lp = [(0, 1), (1, 1), (2, 2), (0, 2), (1, 3), (2, 4), (3, 3)] if tr == "quick" else [(m, n) for m in range(0, 4) for n in range(m, 5)]
    for (m, n) in lp:
        ok = [v for v in members if m <= len(v) <= n]
        if not ok:
            continue
        node = Alt([Lit(json.dumps(v, ensure_ascii=False)) for v in ok])
        cases.append(dict(level="json-length-enum", mode="aut", kind="json", schema={"type": "string", "enum": members, "minLength": m, "maxLength": n}, node=node, mn=(m, n)))
    for v, m, n in [("日本", 0, 2), ("é", 0, 1), ("a€b", 3, 3), ("😀", 1, 1)]:
        cases.append(dict(level="json-length-enum", mode="aut", kind="json", schema={"const": v, "minLength": m, "maxLength": n}, node=Lit(json.dumps(v, ensure_ascii=False)), mn=(m, n)))
    # the same rule quantified twice (an at-most form before an exact form with the same n, and the other way round)
    for n in ([2, 3] if tr == "quick" else [1, 2, 3, 4, 5, 9]):
        cases.append(dict(level="rule-twice", mode="cyk", kind="lark", text="start: a{0,%d} \"y\" a{%d}\na: \"x\"\n" % (n, n), elt=["x"], mn=(n, n), twice="atmost-first", alt_y=False))
        cases.append(dict(level="rule-twice", mode="cyk", kind="lark", text="start: a{%d} \"y\" a{0,%d}\na: \"x\"\n" % (n, n), elt=["x"], mn=(n, n), twice="exact-first", alt_y=False))
        cases.append(dict(level="rule-twice", mode="cyk", kind="lark", text="start: a{1,%d} \"y\" a{%d,}\na: \"x\"\n" % (n + 1, n), elt=["x"], mn=(n, n), twice="range-then-atleast", alt_y=False))
    return cases


def count_ref(case, tid):
    """reference CFG for the count language, from the meaning of {m,n} (finite union of exact repetitions; star for open upper end)"""
    m, n = case["mn"]
    elt = [("T", tid[c]) for c in case["elt"]]
    rules = []
    if case.get("twice"):
        y = ("T", tid["y"])
        if case["twice"] == "atmost-first":
            for i in range(0, n + 1):
                rules.append(("S", elt * i + [y] + elt * n))
        elif case["twice"] == "exact-first":
            for i in range(0, n + 1):
                rules.append(("S", elt * n + [y] + elt * i))
        else:
            rules.append(("R", []))
            rules.append(("R", elt + [("N", "R")]))
            for i in range(1, n + 2):
                rules.append(("S", elt * i + [y] + elt * n + [("N", "R")]))
        return gram.CFG(rules, "S")
    if case.get("nested"):
        lo, hi = case["nested"]
        # inner block I = elt^lo..hi ; S = I^m..n
        for c in range(lo, hi + 1):
            rules.append(("I", elt * c))
        for k in range(m, n + 1):
            rules.append(("S", [("N", "I")] * k))
    elif n is None:
        rules.append(("R", []))
        rules.append(("R", elt + [("N", "R")]))
        rules.append(("S", elt * m + [("N", "R")]))
    else:
        for k in range(m, n + 1):
            rules.append(("S", elt * k))
    if case.get("alt_y"):
        rules.append(("S", [("T", tid["y"])]))
    return gram.CFG(rules, "S")


def bound_for(case, tr):
    m, n = case["mn"]
    top = (n if n is not None else m + 3) + 3
    if case["mode"] == "aut":
        if case["level"] == "json-length":
            return min(2 + 2 * top, 18 if tr == "quick" else 26)
        return 2 * top
    if case.get("twice"):
        return 2 * (n or m) + 4
    if case.get("nested"):
        return min(3 * n + 2, 20)
    if case["mode"] == "cyk-json-array":
        return 2 * top + 1
    if case["mode"] == "cyk-json-object":
        return 4 * top + 2
    return top * len(case["elt"])


def _work_cyk(args):
    idx, case, res, N = args
    out = dict(idx=idx, status="ok", queries=0, solver_s=0.0, cand=None, twin=None, note=None, sizes=None)
    if not res.get("ok"):
        out["status"] = "compile_error"
        out["note"] = str(res.get("error"))[:300]
        return out
    cg = gram.parse_grammar_text(res["cgrammar"], res.get("cgrammar_start"))
    lit = {}
    other = []
    for i, a in enumerate(res.get("automata") or []):
        if "error" in a or i == 0:
            continue
        s = single_string(Aut(a), i)
        if s is not None:
            lit[s.decode("latin-1")] = i
        else:
            other.append(i)
    mode = case["mode"]
    try:
        if mode == "cyk":
            ref = count_ref(case, lit)
        elif mode == "cyk-json-array":
            m, n = case["mn"]
            one, lb, rb, cm = ("T", lit["1"]), ("T", lit["["]), ("T", lit["]"]), ("T", lit[","])
            rules = []
            if n is None:
                rules += [("R", []), ("R", [cm, one, ("N", "R")])]
                if m == 0:
                    rules.append(("S", [lb, rb]))
                rules.append(("S", [lb, one] + [cm, one] * (max(m, 1) - 1) + [("N", "R"), rb]))
            else:
                for k in range(m, n + 1):
                    rules.append(("S", [lb] + ([one] + [cm, one] * (k - 1) if k else []) + [rb]))
            ref = gram.CFG(rules, "S")
        else:
            m, n = case["mn"]
            if len(other) != 1:
                raise KeyError("key lexeme not identified: %s" % other)
            key = ("T", other[0])
            one, lb, rb, cm, col = ("T", lit["1"]), ("T", lit["{"]), ("T", lit["}"]), ("T", lit[","]), ("T", lit[":"])
            kv = [key, col, one]
            rq = case.get("required", 0)
            declared = [[("T", lit['"%s"' % nm]), col, one] for nm in ["a", "b", "c"][:rq]]
            rules = []
            for k in range(max(m, rq), n + 1):
                body = []
                for j in range(k):
                    if j:
                        body.append(cm)
                    body += declared[j] if j < rq else kv
                rules.append(("S", [lb] + body + [rb]))
            ref = gram.CFG(rules, "S")
    except KeyError as ex:
        out["status"] = "skip"
        out["note"] = "terminal mapping failed: %r (literals %s)" % (ex, sorted(lit))
        return out
    terms = cg.terminals() | ref.terminals()
    w, wc = gram.sym_word(N, terms)
    e1 = gram.CykEnc(cg, w, "e")
    e2_ = gram.CykEnc(ref, w, "r")
    out["sizes"] = (len(cg.rules), len(ref.rules), N)
    s = z3.Solver()
    s.set("timeout", 300000)
    s.add(*wc)
    s.add(*e1.cons)
    s.add(*e2_.cons)
    s.push()
    s.add(z3.Or(*[z3.Xor(e1.derives(j), e2_.derives(j)) for j in range(N + 1)]))
    t0 = time.time()
    r = s.check()
    out["solver_s"] += time.time() - t0
    out["queries"] += 1
    if r == z3.sat:
        mdl = s.model()
        word = [mdl.eval(x, model_completion=True).as_long() for x in w]
        for j in range(N + 1):
            if gram.recognizes(cg, word[:j]) != gram.recognizes(ref, word[:j]):
                inv = {v: k for k, v in lit.items()}
                text = "".join(inv.get(t, "\"k\"" if t in other else "?") for t in word[:j])
                out["cand"] = dict(word=word[:j], text=text, engine_grammar_derives=gram.recognizes(cg, word[:j]))
                break
        if out["cand"] is None:
            out["status"] = "nonrepro"
    elif r != z3.unsat:
        out["status"] = "unknown"
    s.pop()
    if idx % 5 == 0 and case["mn"][1] is not None and case["mn"][1] >= 1 and mode == "cyk" and not case.get("nested"):
        # vacuity twin: reference with the upper count moved by one must be distinguishable
        c2 = dict(case)
        c2["mn"] = (case["mn"][0], case["mn"][1] + 1)
        e3 = gram.CykEnc(count_ref(c2, lit), w, "t")
        s.push()
        s.add(*e3.cons)
        s.add(z3.Or(*[z3.Xor(e1.derives(j), e3.derives(j)) for j in range(N + 1)]))
        t0 = time.time()
        out["twin"] = str(s.check())
        out["solver_s"] += time.time() - t0
        out["queries"] += 1
        s.pop()
    return out


def _work_aut(args):
    idx, case, res, N = args
    o = p_c04._work((idx, dict(kind=case["kind"], text=case.get("text"), node=case["node"], alphabet=case.get("alphabet")), res, N))
    return o


def run():
    from concurrent.futures import ProcessPoolExecutor
    tm = Timer()
    tr, sd, prop = tier(), seed(), "C09"
    cases = gen_cases(tr, sd)
    inconclusive = []
    try:
        jobs = []
        for c in cases:
            j = dict(op="compile", kind=c["kind"], want=["cgrammar", "lexemes", "automata"], max_states=3000)
            if c["kind"] == "json":
                j["schema"] = c["schema"]
            else:
                j["text"] = c["text"]
            jobs.append(j)
        results = e2.run_jobs(jobs)
    except RuntimeError as ex:
        write_evidence(prop, "translation_validation", dict(evaluations=1, distinct_nontrivial=0, samples=["exporter build failed"]), tm.s(), 0, [])
        print("INCONCLUSIVE property=%s: %s" % (prop, str(ex)[:500]))
        return EXIT_INCONCLUSIVE
    stats = dict(cases=len(cases), decided=0, queries=0, solver_s=0.0, twins=0, twins_sat=0, skipped=0, by_level={})
    viol = []
    samples = []
    aut_work = [(i, c, results[i], bound_for(c, tr)) for i, c in enumerate(cases) if c["mode"] == "aut"]
    cyk_work = [(i, c, results[i], bound_for(c, tr)) for i, c in enumerate(cases) if c["mode"] != "aut"]
    cands_aut = []
    with ProcessPoolExecutor(max_workers=14) as ex:
        futs = [ex.submit(_work_cyk, w) for w in cyk_work] + [ex.submit(_work_aut, w) for w in aut_work]
        for f in futs:
            o = f.result()
            i = o["idx"]
            c = cases[i]
            stats["queries"] += o["queries"]
            stats["solver_s"] += o["solver_s"]
            lv = stats["by_level"].setdefault(c["level"], dict(cases=0, decided=0))
            lv["cases"] += 1
            if o["status"] in ("skip",):
                stats["skipped"] += 1
                inconclusive.append("case %d (%s %s): %s" % (i, c["level"], c["mn"], o["note"]))
                continue
            if o["status"] == "refbug":
                inconclusive.append("case %d: %s" % (i, o["note"]))
                continue
            if o["status"] == "compile_error":
                viol.append(("compile-error|%s" % c["level"], dict(property=prop, case=_pub(c), error=o["note"])))
                continue
            if o["status"] == "unknown":
                inconclusive.append("solver unknown on case %d (%s %s)" % (i, c["level"], c["mn"]))
                continue
            if o["status"] == "nonrepro":
                inconclusive.append("case %d: model not confirmed concretely" % i)
                continue
            stats["decided"] += 1
            lv["decided"] += 1
            if o.get("twin") is not None:
                stats["twins"] += 1
                stats["twins_sat"] += (o["twin"] == "sat")
            if c["mode"] == "aut":
                for bs in o["cands"]:
                    cands_aut.append((i, bs))
            elif o.get("cand"):
                viol.append(("count|%s" % c["level"], dict(property=prop, case=_pub(c), counterexample=o["cand"], cgrammar=results[i].get("cgrammar"))))
            if len(samples) < 12 and i % max(1, len(cases) // 11) == 0:
                samples.append(dict(level=c["level"], grammar=c.get("text") or c.get("schema"), m_n=c["mn"], bound=bound_for(c, tr), sizes=o.get("sizes") or o.get("states")))
    # replay automaton-level candidates on the real Matcher
    rjobs = []
    for (i, bs) in cands_aut:
        c = cases[i]
        j = dict(op="replay", kind=c["kind"], bytes=bs)
        if c["kind"] == "json":
            j["schema"] = c["schema"]
        else:
            j["text"] = c["text"]
        rjobs.append(j)
    rres = e2.run_jobs(rjobs) if rjobs else []
    nonrepro = 0
    for (i, bs), rr in zip(cands_aut, rres):
        c = cases[i]
        ref = rxref.compile_dfa(c["node"])
        k_ref, accs_ref = p_c04.longest_viable(ref, bs)
        if not rr.get("ok"):
            nonrepro += 1
            continue
        acc_eng = list(rr.get("acc_trace") or [])
        if rr.get("all"):
            acc_eng.append(bool(rr.get("accepting")))
        differ = None
        if rr.get("consumed") != k_ref:
            differ = "viable prefix: engine consumes %s bytes, reference %d" % (rr.get("consumed"), k_ref)
        else:
            for k in range(min(len(acc_eng), len(accs_ref))):
                if acc_eng[k] != accs_ref[k]:
                    differ = "complete after %d bytes: engine %s, reference %s" % (k, acc_eng[k], accs_ref[k])
                    break
        if differ:
            viol.append(("count|%s" % c["level"], dict(property=prop, case=_pub(c), bytes=bs, as_text=bytes(bs).decode("utf-8", "replace"), difference=differ)))
        else:
            nonrepro += 1
    if nonrepro:
        inconclusive.append("%d automaton-level models did not reproduce on the real engine" % nonrepro)
    if stats["twins"] and stats["twins_sat"] < stats["twins"]:
        inconclusive.append("vacuity twins: %d of %d sat" % (stats["twins_sat"], stats["twins"]))
    reported = 0
    seen = set()
    known_hits = []
    for key, payload in viol:
        if key in seen:
            continue
        seen.add(key)
        k = match_known(prop, key)
        if k:
            print("KNOWN-FINDING: property=%s %s (%s)" % (prop, k.get("what"), key))
            known_hits.append(key)
            continue
        payload["key"] = key
        rp = save_replay(prop, "c09_%d" % reported, payload)
        print("VIOLATION property=%s replay=%s" % (prop, rp))
        log("  ", key, json.dumps(payload, default=str, ensure_ascii=False)[:500])
        reported += 1
    cov = dict(programs=stats["decided"], disagreements_checked=len(viol) + len(cands_aut), samples=samples or [dict(note="none")], tier=tr, cases=len(cases),
               decided=stats["decided"], by_level=stats["by_level"], queries=stats["queries"], solver_s=round(stats["solver_s"], 2),
               vacuity_twins="%d/%d sat" % (stats["twins_sat"], stats["twins"]),
               functions_encoded=["grammar_builder.rs repeat/at_most/repeat_exact/at_least/simple_repeat (+ caches), RegexBuilder::repeat", "lark/compiler.rs do_expr / do_token_expr range parsing",
                                  "json/compiler.rs gen_json_array / bounded_sequence / ordered_sequence (min/maxItems, min/maxProperties), string length regexes (gen_json_string)",
                                  "earley/grammar.rs optimize + CGrammar::from_grammar (compiled rule table incl. nullable flags)", "derivre + regexvec automata for the regex/terminal/string-length level"],
               bounds=dict(m_n_max=14 if tr == "quick" else 40, string_alphabet="quote, backslash, a n u 0 1 7 f F b, é, €, LF", counts_checked="0 .. n+3 repetitions (all prefixes of the symbolic word)"),
               known_findings_reported=known_hits, inconclusive=inconclusive[:20])
    assumptions = ["rule level: the compiled rule table (with its nullable flags read as epsilon rules) is compared as a CFG over lexeme ids; the Earley run of that table is outside the claim",
                   "string length: characters = Unicode scalar values, an escape counts as one; escapes limited to the documented default set (nrbtf\\\" and \\u00XX control characters)",
                   "counts above the stated bound are outside the claim"]
    write_evidence(prop, "translation_validation", cov, tm.s(), reported, assumptions)
    if reported:
        return EXIT_VIOLATION
    if settle(prop, inconclusive, len(cases)):
        return EXIT_INCONCLUSIVE
    print("OK property=%s tier=%s cases=%d decided=%d queries=%d (%.0fs)" % (prop, tr, len(cases), stats["decided"], stats["queries"], tm.s()))
    return EXIT_OK


def _pub(c):
    return {k: v for k, v in c.items() if k not in ("node",)}
