"""C11 — internal caching never changes a mask (cache-protocol half). E1c: ParserState::compute_bias (with its cache lookup and update),
rollback and Parser::invalidate_bias_cache as whole-function slices of the current source, over a stub engine whose answers are a
symbolic function of what a mask can depend on."""
from . import parser_props as pp
from .common import Timer, tier
from .e1check import E1Outcome, e1_coverage, finish, run_parser_groups

ASSUMPTIONS = [
    "bounded model checking (Kani 0.68/CBMC 6.11), unwinding assertions on",
    "P11: the functions ParserState::{compute_bias, with_items_limit, has_pending_lexeme_bytes, lexer_state, num_rows, rollback, assert_definitive, assert_definitive_inner, check_lexer_bytes_invariant} and Parser::invalidate_bias_cache are cut verbatim from /repo's current earley/parser.rs on every run and re-hosted in a mock parser state with the same field names (real LexerState, BiasCache, StateID, ParserStats, SimpleVob)",
    "stub contract (part of the claim): the trie walk, flush_lexer() and lexer_allows_eos() answer as an arbitrary FUNCTION of (lexer state on top of the stack, content of the current Earley row, whether the current lexeme has pending bytes); row content is a ghost version number: a row keeps it while it stays on the stack, a row opened later gets a fresh one even at the same index; definitive progress = push one byte, staying in the row or opening the next row (arbitrary new lexer state); run_speculative, Instant, perf counters, lexer fuel are no-ops; no token-range lexemes are live (K19.4 decides those statements)",
    "histories: 0-2 bytes, a mask, then two operations out of {nothing, push a byte, rollback(1), rollback(2)} (10 concrete shapes; vector LENGTHS concrete per instance, every content and every stub answer symbolic), then: mask == mask after invalidate_bias_cache(); separately a mask with a non-empty start is neither served from nor stored in the cache; 3 lexer states, 4-token vocabulary",
    "P11s (speculation leaves no trace): ParserState::{run_speculative, trie_started_inner, trie_finished_inner, pop_lexer_states, lexer_state, num_rows, assert_definitive*, check_lexer_bytes_invariant} verbatim; the speculative activity (trie walk, validation, forced-byte probe, is_accepting) is an arbitrary sequence of <= 3 pushes / pops of lexer states (never below the starting level: decided for the real walk by K16.3), grammar-stack pushes and writes of the speculative-only flags; afterwards the lexer stack equals the stack before entry by entry, the engine is in definitive mode, rows_valid_end == num_rows, the flush position and the log override are reset and the grammar stack is back to its length",
    "outside the claim: that the real walk IS such a function (row reuse during the speculative walk, lexer tables shared between clones), the row cache of the Earley rows themselves, is_accepting/ff_tokens caches of TokenParser beyond their invalidation points (decided under C12), fresh engine replaying the same tokens (needs the interpreter)",
]


def run():
    tm = Timer()
    out = E1Outcome()
    specs = pp.specs("pcache", "c11", "c11_fail")
    if tier() == "quick":
        keep = ("pre1_none", "pre0_push", "pre1_rb1_push", "pre2_rb1_push", "pre1_push_rb1", "start_bypasses", "witness")
        specs = [s for s in specs if any(k in s["name"] for k in keep)]
    specs += pp.specs("pspec", "c11", "c11_fail")
    info = run_parser_groups("C11", "c11", ["pcache", "pspec"], specs, out, jobs=6, harness_timeout_s=900, mem_gb=40)
    cov = e1_coverage(out, [dict(harness=s["name"]) for s in specs[:8]],
                      ["earley/parser.rs ParserState::compute_bias (cache lookup, walk call, post-walk statements, cache update), rollback, with_items_limit, has_pending_lexeme_bytes, lexer_state, num_rows, assert_definitive*, check_lexer_bytes_invariant; Parser::invalidate_bias_cache (whole-function slices)",
                       "toktrie::SimpleVob::{alloc, allow_token, disallow_token, is_allowed, clone}"],
                      dict(history="<=2 bytes + mask + 2 ops + mask", lexer_states=3, vocab=4, row_versions=4), dict(tier=tier(), stubs=["trie walk", "flush_lexer", "lexer_allows_eos", "run_speculative", "Instant", "perf counters"], **info))
    return finish("C11", out, tm, "model_checking", cov, ASSUMPTIONS)
