// Kani harnesses — child module of llguidance::ffi. C17 buffer half.
// K17.1: the mask-copy statements of ffi_par.rs (rayon closure) are cut out of the CURRENT source between two anchor lines and
// included below (verif_ffi_par_slice.rs, generated on every run) into a mock environment with the same names over the REAL
// SimpleVob / StepResult types.
use super::*;
use toktrie::{SimpleVob, StepResult};

struct MockTrie {
    eos: u32,
}
impl MockTrie {
    fn eos_token(&self) -> u32 {
        self.eos
    }
}
struct MockConstraint {
    trie: MockTrie,
    res: Option<StepResult>,
}
impl MockConstraint {
    fn tok_trie(&self) -> &MockTrie {
        &self.trie
    }
    fn compute_mask(&mut self) -> Result<&StepResult, MockErr> {
        match &self.res {
            Some(r) => Ok(r),
            None => Err(MockErr),
        }
    }
}
struct MockErr;
impl MockErr {
    fn to_string(&self) -> String {
        String::new()
    }
}
struct MockCc {
    constraint: Option<MockConstraint>,
    err: bool,
}
impl MockCc {
    fn set_error(&mut self, _e: &str) {
        self.err = true;
    }
}
struct MockStep {
    mask_dest: *mut u32,
    mask_byte_len: usize,
}

pub fn stub_format(_args: core::fmt::Arguments<'_>) -> String {
    String::new()
}

fn run_slice(cc: &mut MockCc, step: &MockStep) {
    let mask_elts = step.mask_byte_len / 4;
    include!("verif_ffi_par_slice.rs");
}

fn h_par_copy<const V: usize, const MW: usize, const DW: usize, const KIND: u8>() {
    // V = vocabulary size (concrete per instance, at the 32-bit boundaries; a symbolic allocation length exhausts CBMC),
    // MW = words of the engine's mask (alloc_token_set shape: ceil((V+1)/32)), DW = words of the caller's buffer.
    // KIND = result kind (0 sample / 1 stop / 2 error), concrete per instance: Kani 0.68 mis-models ptr::write_bytes with a
    // symbolic count (a three-line probe `write_bytes(p, 0, n)` with n assumed == 1 fails), and the count is only concrete
    // when the path is. Symbolic: mask contents, eos id.
    let v: usize = V;
    let words: [u32; MW] = kani::any();
    let mut vob = SimpleVob::alloc_with_capacity(v, v + 1);
    assert!(vob.as_slice().len() == MW);
    let mut i = 0;
    while i < V {
        if (words[i / 32] >> (i % 32)) & 1 == 1 {
            vob.allow_token(i as u32);
        }
        i += 1;
    }
    let kind: u8 = KIND;
    let eos: u32 = kani::any();
    kani::assume((eos as usize) < v);
    let res = match kind {
        0 => Some(StepResult::sample(vob, None)),
        1 => Some(StepResult::stop()),
        _ => None,
    };
    let mut cc = MockCc { constraint: Some(MockConstraint { trie: MockTrie { eos }, res }), err: false };
    let mut dest = [0xDEADBEEFu32; DW];
    let step = MockStep { mask_dest: dest.as_mut_ptr(), mask_byte_len: DW * 4 };
    run_slice(&mut cc, &step);
    // post-condition on every destination word
    let mut k = 0;
    while k < DW {
        let lo = k * 32;
        let valid: u32 = if v <= lo { 0 } else if v - lo >= 32 { !0 } else { (1u32 << (v - lo)) - 1 };
        let expect = if kind == 0 {
            if k < MW { words[k] & valid } else { 0 }
        } else if kind == 1 && k == (eos as usize) / 32 {
            1u32 << (eos % 32)
        } else {
            0
        };
        assert!(dest[k] == expect, "destination word differs from mask / zero fill");
        assert!(dest[k] & !valid == 0, "bit at or above vocab_size in caller buffer");
        k += 1;
    }
    assert!(cc.err == (kind == 2));
    kani::cover!(eos as usize == v - 1);
    core::mem::forget(cc);
}

inst!(k17_1_par_copy_v31_d0_k0, h_par_copy, 70, 31, 1, 0, 0);
inst!(k17_1_par_copy_v31_d0_k1, h_par_copy, 70, 31, 1, 0, 1);
inst!(k17_1_par_copy_v31_d0_k2, h_par_copy, 70, 31, 1, 0, 2);
inst!(k17_1_par_copy_v31_d1_k0, h_par_copy, 70, 31, 1, 1, 0);
inst!(k17_1_par_copy_v31_d1_k1, h_par_copy, 70, 31, 1, 1, 1);
inst!(k17_1_par_copy_v31_d1_k2, h_par_copy, 70, 31, 1, 1, 2);
inst!(k17_1_par_copy_v31_d2_k0, h_par_copy, 70, 31, 1, 2, 0);
inst!(k17_1_par_copy_v32_d1_k0, h_par_copy, 70, 32, 2, 1, 0);
inst!(k17_1_par_copy_v32_d2_k0, h_par_copy, 70, 32, 2, 2, 0);
inst!(k17_1_par_copy_v33_d1_k0, h_par_copy, 70, 33, 2, 1, 0);
inst!(k17_1_par_copy_v33_d3_k0, h_par_copy, 70, 33, 2, 3, 0);
inst!(k17_1_par_copy_v33_d3_k1, h_par_copy, 70, 33, 2, 3, 1);
inst!(k17_1_par_copy_v33_d3_k2, h_par_copy, 70, 33, 2, 3, 2);
inst!(k17_1_par_copy_v63_d2_k0, h_par_copy, 70, 63, 2, 2, 0);
inst!(k17_1_par_copy_v64_d2_k0, h_par_copy, 70, 64, 3, 2, 0);
inst!(k17_1_par_copy_v64_d2_k1, h_par_copy, 70, 64, 3, 2, 1);
inst!(k17_1_par_copy_v64_d2_k2, h_par_copy, 70, 64, 3, 2, 2);
inst!(k17_1_par_copy_v64_d4_k0, h_par_copy, 70, 64, 3, 4, 0);
inst!(k17_1_par_copy_v5_d1_k0, h_par_copy, 70, 5, 1, 1, 0);

/// K17.2: llg_matcher_compute_mask_into slices `as_slice()[0..n_elts]` with n_elts = ceil(V/32): in bounds for the
/// alloc_token_set shape and of byte size n_elts*4, for every V
#[kani::proof]
fn k17_2_mask_into_slice_bounds() {
    let v: usize = kani::any();
    kani::assume(v >= 1 && v <= 200_000);
    let n_elts = v.div_ceil(32);
    let alloc_words = (v + 1).div_ceil(32);
    assert!(n_elts <= alloc_words);
    assert!(n_elts * 4 == v.div_ceil(32) * 4);
    kani::cover!(v % 32 == 0);
    kani::cover!(v % 32 == 31);
}

#[kani::proof]
#[kani::unwind(5)]
fn k17_2_mask_into_slice_real() {
    // real SimpleVob of the alloc_token_set shape, V symbolic within one word count
    let v: usize = kani::any();
    kani::assume(v >= 33 && v <= 64);
    let vob = SimpleVob::alloc_with_capacity(v, v + 1);
    let n_elts = v.div_ceil(32);
    let slc = &vob.as_slice()[0..n_elts];
    assert!(std::mem::size_of_val(slc) == n_elts * 4);
    kani::cover!(v == 64);
    kani::cover!(v == 63);
}

/// K17.3: the token-id range test of llg_commit_token (sliced expression)
#[kani::proof]
fn k17_3_token_range_test() {
    let token: LlgToken = kani::any();
    let vocab: usize = kani::any();
    kani::assume(vocab <= u32::MAX as usize);
    struct T(usize);
    impl T {
        fn vocab_size(&self) -> usize {
            self.0
        }
    }
    let trie = T(vocab);
    let token = include!("verif_ffi_token_slice.rs");
    match token {
        Some(t) => assert!((t as usize) < vocab),
        None => {}
    }
    kani::cover!(token.is_none());
    kani::cover!(token.is_some());
}

#[kani::proof]
#[kani::unwind(70)]
fn k17_witness_must_fail() {
    let mut dest = [0xDEADBEEFu32; 2];
    let vob = SimpleVob::alloc_with_capacity(40, 41);
    let mut cc = MockCc { constraint: Some(MockConstraint { trie: MockTrie { eos: 3 }, res: Some(StepResult::sample(vob, None)) }), err: false };
    let step = MockStep { mask_dest: dest.as_mut_ptr(), mask_byte_len: 8 };
    run_slice(&mut cc, &step);
    assert!(dest[0] == 0xDEADBEEF);
    core::mem::forget(cc);
}
