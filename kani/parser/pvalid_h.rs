// Kani harness — child module of llguidance::earley::parser (E1c: function slices). P01v: ParserState::validate_tokens.
// The function is cut VERBATIM from /repo's current parser.rs and re-hosted in a mock parser state: the recogniser's try_push_byte
// is a symbolic table acceptor over the speculative byte stack (entry per depth and byte class), forced bytes already applied by
// force_bytes() but not yet covered by tokens are symbolic, the trie is a 4-token table with symbolic spellings (0..2 bytes), token
// 3 is the end-of-sequence token.  Decided: the result is exactly the number of leading tokens that could be committed one by one —
// every byte of each must equal the pending forced byte at its position or, beyond the forced bytes, be accepted by the acceptor
// (the marker byte never is); end-of-sequence counts exactly when nothing forced is pending and the state is accepting, and ends
// the count either way.
use super::*;
// explicit imports: the harness must not depend on which names the real module happens to import
#[allow(unused_imports)]
use ::toktrie::{TokTrie, TokenId};

const V: usize = 4;
const EOS_T: TokenId = 3;
const MAXD: usize = 6;

#[derive(Clone)]
struct MockTrie {
    lens: [usize; V],
    bytes: [[u8; 2]; V],
    eos: [TokenId; 1],
}

impl MockTrie {
    fn eos_tokens(&self) -> &[TokenId] {
        &self.eos
    }
    fn decode_raw(&self, toks: &[TokenId]) -> Vec<u8> {
        let t = toks[0] as usize;
        let mut r = Vec::with_capacity(2);
        let mut i = 0;
        while i < self.lens[t] {
            r.push(self.bytes[t][i]);
            i += 1;
        }
        r
    }
    // special spelling: marker byte followed by one byte naming the token
    fn decode_as_special(&self, tok: TokenId) -> Vec<u8> {
        let mut r = Vec::with_capacity(2);
        r.push(TokTrie::SPECIAL_TOKEN_MARKER);
        r.push(b'0' + tok as u8);
        r
    }
}

#[derive(Clone)]
struct MockEnv {
    trie: MockTrie,
}
impl MockEnv {
    fn tok_trie(&self) -> &MockTrie {
        &self.trie
    }
}

struct MockScratch {
    log_override: bool,
}

struct MockPS {
    scratch: MockScratch,
    byte_to_token_idx: Vec<u32>,
    bytes: Vec<u8>,
    tok_env: MockEnv,
    // stub state
    depth: usize,
    accept: [[bool; 4]; MAXD + 1],
    accepting_at: [bool; MAXD + 1],
    pushed: [u8; MAXD],
    saves: usize,
    restores: usize,
    // tokens a live token-range lexeme takes by id (symbolic set); taking one is modelled as one accepted step
    numeric_ok: [bool; V],
}

struct ParserRecognizer<'a> {
    state: &'a mut MockPS,
}

impl ParserRecognizer<'_> {
    fn try_push_byte(&mut self, b: u8) -> bool {
        let d = self.state.depth;
        if d >= MAXD || !self.state.accept[d][(b & 3) as usize] {
            return false;
        }
        self.state.pushed[d] = b;
        self.state.depth = d + 1;
        true
    }
}

impl MockPS {
    fn assert_definitive(&self) {}
    fn run_speculative<T>(&mut self, _lbl: &str, f: impl FnOnce(&mut Self) -> T) -> T {
        let d0 = self.depth;
        let r = f(self);
        // the speculative pushes are undone by trie_finished_inner
        self.depth = d0;
        r
    }
    fn is_accepting_inner(&mut self) -> bool {
        self.accepting_at[self.depth]
    }
    fn save_state(&self) -> usize {
        self.depth
    }
    fn restore_state(&mut self, s: usize) {
        self.restores += 1;
        self.depth = s;
    }
    // a live token-range lexeme takes the token by id (symbolic set of ids); flushing the lexer has no other effect here
    fn flush_and_check_numeric(&mut self, tok: TokenId) -> Option<LexemeIdx> {
        if self.numeric_ok[tok as usize] {
            Some(LexemeIdx::new(0))
        } else {
            None
        }
    }
    fn add_numeric_token(&mut self, _idx: LexemeIdx, _b: &[u8]) -> core::result::Result<(), ()> {
        if self.depth < MAXD {
            self.depth += 1;
        }
        Ok(())
    }
}

include!("verif_pvalid_fns.rs");

fn p01v_body<const NT: usize, const FORCED: usize>() {
    let lens: [usize; V] = kani::any();
    let bytes: [[u8; 2]; V] = kani::any();
    let mut i = 0;
    while i < V {
        kani::assume(lens[i] <= 2);
        i += 1;
    }
    let trie = MockTrie { lens, bytes, eos: [EOS_T] };
    let forced: [u8; FORCED] = kani::any();
    let mut all_bytes = Vec::with_capacity(1 + FORCED);
    let mut b2t = Vec::with_capacity(1);
    // one byte already covered by a token, then the forced bytes
    all_bytes.push(b'p');
    b2t.push(0u32);
    let mut i = 0;
    while i < FORCED {
        all_bytes.push(forced[i]);
        i += 1;
    }
    let mut st = MockPS {
        scratch: MockScratch { log_override: false },
        byte_to_token_idx: b2t,
        bytes: all_bytes,
        tok_env: MockEnv { trie },
        depth: 0,
        accept: kani::any(),
        accepting_at: kani::any(),
        pushed: [0; MAXD],
        saves: 0,
        restores: 0,
        numeric_ok: kani::any(),
    };
    kani::assume(!st.numeric_ok[EOS_T as usize]);
    let toks: [TokenId; NT] = kani::any();
    let mut i = 0;
    while i < NT {
        kani::assume((toks[i] as usize) < V);
        i += 1;
    }
    let got = st.validate_tokens(&toks);

    // the reference: commit one by one
    let mut pos = 0usize; // forced bytes matched so far
    let mut depth = 0usize;
    let mut want = NT;
    let mut done = false;
    let mut ti = 0;
    while ti < NT {
        if !done {
            let t = toks[ti];
            if t == EOS_T {
                want = if pos == FORCED && st.accepting_at[depth] { ti + 1 } else { ti };
                done = true;
            } else if pos == FORCED && st.numeric_ok[t as usize] {
                // taken by id by a token-range lexeme: only once nothing forced is pending
                if depth < MAXD {
                    depth += 1;
                }
            } else {
                let special = pos < FORCED && forced[pos] == TokTrie::SPECIAL_TOKEN_MARKER;
                let n = if special { 2 } else { lens[t as usize] };
                let mut k = 0;
                while k < 2 {
                    if k < n && !done {
                        let b = if special {
                            if k == 0 {
                                TokTrie::SPECIAL_TOKEN_MARKER
                            } else {
                                b'0' + t as u8
                            }
                        } else {
                            bytes[t as usize][k]
                        };
                        if pos < FORCED {
                            if forced[pos] == b {
                                pos += 1;
                            } else {
                                want = ti;
                                done = true;
                            }
                        } else if b != TokTrie::SPECIAL_TOKEN_MARKER && depth < MAXD && st.accept[depth][(b & 3) as usize] {
                            depth += 1;
                        } else {
                            want = ti;
                            done = true;
                        }
                    }
                    k += 1;
                }
            }
        }
        ti += 1;
    }
    assert!(got == want);
    assert!(got <= NT);
    // validation leaves no trace: the speculative stack is back where it was
    assert!(st.depth == 0);
    kani::cover!(got == NT && NT > 0 && depth >= 2);
    kani::cover!(NT < 2 || (got == 1 && toks[1] != EOS_T));
    kani::cover!(NT < 2 || (got == 2 && toks[1] == EOS_T));
    kani::cover!(FORCED == 0 || (got >= 1 && pos == FORCED));
    let vc_2 = NT < 2 || (got == 2 && st.numeric_ok[toks[1] as usize] && !st.numeric_ok[toks[0] as usize]);
    kani::cover!(vc_2);
    std::mem::forget(st);
}

inst!(p01v_validate_t1_f0, p01v_body, 8, 1, 0);
inst!(p01v_validate_t2_f0, p01v_body, 8, 2, 0);
inst!(p01v_validate_t2_f1, p01v_body, 8, 2, 1);
inst!(p01v_validate_t2_f2, p01v_body, 8, 2, 2);
inst!(p01v_validate_t3_f1, p01v_body, 8, 3, 1);

#[kani::proof]
#[kani::unwind(8)]
fn p01v_witness_must_fail() {
    let trie = MockTrie { lens: [1; V], bytes: kani::any(), eos: [EOS_T] };
    let mut st = MockPS {
        scratch: MockScratch { log_override: false },
        byte_to_token_idx: Vec::new(),
        bytes: Vec::new(),
        tok_env: MockEnv { trie },
        depth: 0,
        accept: kani::any(),
        accepting_at: kani::any(),
        pushed: [0; MAXD],
        saves: 0,
        restores: 0,
        numeric_ok: [false; V],
    };
    let t: TokenId = kani::any();
    kani::assume(t < EOS_T);
    // wrong on purpose: claims no token ever validates
    assert!(st.validate_tokens(&[t]) == 0);
    std::mem::forget(st);
}
