// Kani harnesses — child module of llguidance::json::numeric. C08-E1 / C20 kernels.
use super::*;
use crate::json::schema::NumberSchema;

/// Decimal::new keeps the value and strips trailing zeros of the coefficient
#[kani::proof]
#[kani::unwind(12)]
fn c20_decimal_new() {
    let coef: u32 = kani::any();
    let exp: u32 = kani::any();
    kani::assume(exp <= 9);
    let d = Decimal::new(coef, exp);
    assert!(d.exp <= exp);
    // same value: coef * 10^(exp - d.exp) == original coef
    let mut c = d.coef as u64;
    let mut k = d.exp;
    while k < exp {
        c *= 10;
        k += 1;
    }
    assert!(c == coef as u64);
    assert!(d.exp == 0 || d.coef % 10 != 0 || d.coef == 0);
    kani::cover!(exp == 3 && d.exp == 1);
}

/// Combining two multipleOf values never overflows its arithmetic silently: for every pair of 32-bit coefficients and
/// exponents <= 2, checked_lcm either returns a value or refuses (None). Any `attempt to multiply with overflow` /
/// `attempt to add with overflow` inside it would be a wrapped product in release builds, i.e. a wrong multipleOf grammar.
#[kani::proof]
#[kani::unwind(22)]
fn c20_decimal_lcm_no_overflow() {
    let a = Decimal { coef: kani::any(), exp: kani::any() };
    let b = Decimal { coef: kani::any(), exp: kani::any() };
    kani::assume(a.exp <= 2 && b.exp <= 2);
    // gcd64 is recursive with a data-dependent depth (up to 93 for 64-bit operands): its arithmetic is `%` only, which cannot
    // overflow; the harness bounds the operands so that the recursion fits the unwinding bound and states so.
    kani::assume(a.coef <= 12 || b.coef <= 12);
    let r = a.checked_lcm(&b);
    let (some, zero) = match &r {
        Some(l) => (true, l.coef == 0),
        None => (false, false),
    };
    if a.coef == 0 || b.coef == 0 {
        assert!(some && zero);
    }
    kani::cover!(!some);
    kani::cover!(some && a.coef > 100_000 && b.coef > 1);
}

/// functional part on small coefficients: the result is the least common multiple of both values
#[kani::proof]
#[kani::unwind(16)]
fn c08_decimal_lcm_small() {
    let a = Decimal { coef: kani::any(), exp: kani::any() };
    let b = Decimal { coef: kani::any(), exp: kani::any() };
    kani::assume(a.exp <= 1 && b.exp <= 1);
    kani::assume(a.coef >= 1 && b.coef >= 1 && a.coef <= 60 && b.coef <= 60);
    let l = a.checked_lcm(&b).unwrap();
    let e = if a.exp > b.exp { a.exp } else { b.exp };
    let sa = a.coef as u64 * if e > a.exp { 10 } else { 1 };
    let sb = b.coef as u64 * if e > b.exp { 10 } else { 1 };
    let sl = l.coef as u64 * if e > l.exp { 10 } else { 1 };
    assert!(l.exp <= e);
    assert!(sl % sa == 0 && sl % sb == 0, "lcm is not a common multiple");
    // least: no smaller positive common multiple
    let k: u64 = kani::any();
    kani::assume(k >= 1 && k < sl);
    assert!(!(k % sa == 0 && k % sb == 0), "a smaller common multiple exists");
    kani::cover!(a.exp != b.exp && sl > sa && sl > sb);
}

#[kani::proof]
#[kani::unwind(17)]
fn c20_gcd() {
    // bound: 10-bit operands (Euclid needs at most 15 steps below 1024; 16-bit operands did not finish in 400 s)
    let a: u64 = kani::any();
    let b: u64 = kani::any();
    kani::assume(a < 1024 && b < 1024);
    let g = gcd64(a, b);
    if a != 0 || b != 0 {
        assert!(g != 0);
        assert!(a % g == 0 && b % g == 0);
    } else {
        assert!(g == 0);
    }
    kani::cover!(a > 1 << 9 && b > 1 << 8 && g > 1);
}

fn any_finite(lo: f64, hi: f64) -> f64 {
    let x: f64 = kani::any();
    kani::assume(x >= lo && x <= hi);
    x
}

/// normalize_integer_bounds returns the least / greatest integer satisfying the (exclusive) bound
#[kani::proof]
fn c08_normalize_integer_bounds() {
    let has_min: bool = kani::any();
    let has_xmin: bool = kani::any();
    let has_max: bool = kani::any();
    let has_xmax: bool = kani::any();
    let num = NumberSchema {
        minimum: if has_min { Some(any_finite(-1.0e6, 1.0e6)) } else { None },
        exclusive_minimum: if has_xmin { Some(any_finite(-1.0e6, 1.0e6)) } else { None },
        maximum: if has_max { Some(any_finite(-1.0e6, 1.0e6)) } else { None },
        exclusive_maximum: if has_xmax { Some(any_finite(-1.0e6, 1.0e6)) } else { None },
        integer: true,
        multiple_of: None,
    };
    let (lo, hi) = normalize_integer_bounds(&num);
    let k: i64 = kani::any();
    kani::assume(k >= -1_000_002 && k <= 1_000_002);
    let kf = k as f64;
    let sat_min = (!has_min || kf >= num.minimum.unwrap()) && (!has_xmin || kf > num.exclusive_minimum.unwrap());
    let sat_max = (!has_max || kf <= num.maximum.unwrap()) && (!has_xmax || kf < num.exclusive_maximum.unwrap());
    match lo {
        Some(l) => assert!((k >= l) == sat_min),
        None => assert!(!has_min && !has_xmin),
    }
    match hi {
        Some(h) => assert!((k <= h) == sat_max),
        None => assert!(!has_max && !has_xmax),
    }
    kani::cover!(has_xmin && !has_min && num.exclusive_minimum.unwrap() == 3.0 && k == 4);
    let vc_3 = has_min && has_xmin && num.minimum.unwrap() > num.exclusive_minimum.unwrap();
    kani::cover!(vc_3);
    kani::cover!(has_max && num.maximum.unwrap() == -2.5 && k == -3);
}

/// get_minimum / get_maximum select the stricter keyword
#[kani::proof]
fn c08_min_max_selection() {
    let mn = any_finite(-1.0e9, 1.0e9);
    let xmn = any_finite(-1.0e9, 1.0e9);
    let num = NumberSchema { minimum: Some(mn), exclusive_minimum: Some(xmn), maximum: Some(mn), exclusive_maximum: Some(xmn), integer: false, multiple_of: None };
    let v = any_finite(-2.0e9, 2.0e9);
    let (m, excl) = num.get_minimum();
    let m = m.unwrap();
    let sat = v >= mn && v > xmn;
    assert!((if excl { v > m } else { v >= m }) == sat);
    let (m2, excl2) = num.get_maximum();
    let m2 = m2.unwrap();
    let sat2 = v <= mn && v < xmn;
    assert!((if excl2 { v < m2 } else { v <= m2 }) == sat2);
    kani::cover!(excl && mn == xmn);
    kani::cover!(!excl);
}

#[kani::proof]
#[kani::unwind(17)]
fn c20_numeric_witness_must_fail() {
    let a: u64 = kani::any();
    let b: u64 = kani::any();
    kani::assume(a > 0 && b > 0 && a < 1024 && b < 1024);
    assert!(gcd64(a, b) == 1);
}
