// Kani harness — child module of llguidance::constraint (E1c: function slices). P18c: the step protocol of Constraint (the
// sampling-loop interface).  Constraint::{compute_mask, compute_mask_inner, commit_token, commit_token_inner, catch_unwind,
// res_commit_result, save_progress_and_result, save_temperature, step_result, has_pending_stop, validate_tokens_raw, force_tokens}
// are cut VERBATIM from /repo's current constraint.rs and re-hosted on a local copy of the Constraint struct whose TokenParser is a
// stub (calls logged, answers symbolic).  Real: StepResult / Branch / Splice (toktrie), CommitResult, StopReason, SimpleVob.
use super::*;
// explicit imports: the harness must not depend on which names the real module happens to import
#[allow(unused_imports)]
use crate::api::StopReason;
#[allow(unused_imports)]
use ::toktrie::{StepResult, TokenId};
use ::toktrie::SimpleVob;

#[derive(Debug, Clone, Copy, PartialEq)]
pub struct MockErr;
type Result<T> = core::result::Result<T, MockErr>;

macro_rules! ensure {
    ($c:expr, $($t:tt)*) => {
        if !($c) {
            return Err(MockErr);
        }
    };
}
macro_rules! bail {
    ($($t:tt)*) => {
        return Err(MockErr)
    };
}
macro_rules! loginfo {
    ($($t:tt)*) => {};
}
mod anyhow {
    macro_rules! anyhow_mock {
        ($($t:tt)*) => {
            MockErr
        };
    }
    pub(crate) use anyhow_mock as anyhow;
}
mod panic_utils {
    pub fn catch_unwind<T, F: FnOnce() -> super::Result<T>>(f: std::panic::AssertUnwindSafe<F>) -> super::Result<T> {
        (f.0)()
    }
}
mod serde_json {
    pub fn to_string<T>(_v: &T) -> core::result::Result<String, ()> {
        Ok(String::new())
    }
}
mod toktrie {
    pub type TokTrie = super::MockTrie;
}

const V: usize = 4;
const MAXT: usize = 4;

pub struct MockTrie;
impl MockTrie {
    fn alloc_token_set(&self) -> SimpleVob {
        SimpleVob::alloc(V)
    }
}
struct MockEnv {
    t: MockTrie,
}
impl MockEnv {
    fn tok_trie(&self) -> &MockTrie {
        &self.t
    }
}
struct MockLogger;
impl MockLogger {
    fn write_buffer(&mut self, _s: &str) {}
}
struct MockInnerParser;
impl MockInnerParser {
    fn temperature(&self) -> Option<f32> {
        None
    }
}
struct MockCaps {
    ff_tokens: bool,
}
struct Reporter;
impl Reporter {
    fn get_progress(&mut self, _p: &TokenParser, _r: &StepResult) -> Vec<u8> {
        Vec::new()
    }
}

struct TokenParser {
    token_env: MockEnv,
    logger: MockLogger,
    parser: MockInnerParser,
    inference_caps: MockCaps,
    stop_reason: StopReason,
    started: bool,
    consumed: [TokenId; MAXT],
    n_consumed: usize,
    n_check_stop: usize,
    n_mask: usize,
    // answers
    stop_after: usize,     // check_stop answers true once this many tokens are consumed
    consume_ok: bool,
    mask_err: u8,          // 0: mask ok, 1: NoExtensionBias stop, 2: other failure
    mask_bits: u8,
    ff: Option<TokenId>,
}

impl TokenParser {
    fn start_without_prompt(&mut self) {
        assert!(!self.started);
        self.started = true;
    }
    fn check_stop(&mut self) -> Result<bool> {
        self.n_check_stop += 1;
        if self.stop_reason == StopReason::NotStopped && self.n_consumed >= self.stop_after {
            self.stop_reason = StopReason::NoExtension;
        }
        Ok(self.stop_reason != StopReason::NotStopped)
    }
    fn compute_mask(&mut self) -> Result<SimpleVob> {
        self.n_mask += 1;
        assert!(self.started);
        if self.stop_reason != StopReason::NotStopped {
            return Err(MockErr);
        }
        if self.mask_err == 1 {
            self.stop_reason = StopReason::NoExtensionBias;
            return Err(MockErr);
        }
        if self.mask_err >= 2 {
            self.stop_reason = StopReason::LexerTooComplex;
            return Err(MockErr);
        }
        let mut s = SimpleVob::alloc(V);
        let mut t = 0;
        while t < V {
            if self.mask_bits & (1 << t) != 0 {
                s.allow_token(t as u32);
            }
            t += 1;
        }
        Ok(s)
    }
    fn stop_reason(&self) -> StopReason {
        self.stop_reason
    }
    // the rest of TokenParser's public query surface (a rewritten caller may use any of it)
    fn stopped(&self) -> bool {
        self.stop_reason != StopReason::NotStopped
    }
    fn is_fresh(&self) -> bool {
        !self.started
    }
    fn error_message(&self) -> Option<String> {
        None
    }
    fn temperature(&self) -> Option<f32> {
        None
    }
    fn num_tokens(&self) -> usize {
        self.n_consumed
    }
    fn consume_token(&mut self, t: TokenId) -> Result<usize> {
        if self.stop_reason != StopReason::NotStopped || !self.consume_ok || self.n_consumed >= MAXT {
            if self.stop_reason == StopReason::NotStopped {
                self.stop_reason = StopReason::InternalError;
            }
            return Err(MockErr);
        }
        self.consumed[self.n_consumed] = t;
        self.n_consumed += 1;
        Ok(0)
    }
    fn consume_ff_tokens(&mut self) -> Result<Vec<TokenId>> {
        match self.ff {
            Some(t) => {
                self.consume_token(t)?;
                Ok(vec![t])
            }
            None => Ok(Vec::new()),
        }
    }
    fn validate_tokens_raw(&mut self, tokens: &[TokenId]) -> Result<usize> {
        Ok(tokens.len())
    }
    fn augment_err(&self, _e: MockErr) -> String {
        String::new()
    }
}

struct Constraint {
    parser: TokenParser,
    log_json_progress: bool,
    temperature: f32,
    reporter: Reporter,
    last_res: StepResult,
    started: bool,
    pending_stop: bool,
}

include!("verif_constraint_fns.rs");

fn any_constraint() -> Constraint {
    let ff: Option<TokenId> = if kani::any() { Some(kani::any()) } else { None };
    Constraint {
        parser: TokenParser {
            token_env: MockEnv { t: MockTrie },
            logger: MockLogger,
            parser: MockInnerParser,
            inference_caps: MockCaps { ff_tokens: kani::any() },
            stop_reason: StopReason::NotStopped,
            started: false,
            consumed: [0; MAXT],
            n_consumed: 0,
            n_check_stop: 0,
            n_mask: 0,
            stop_after: kani::any(),
            consume_ok: kani::any(),
            mask_err: kani::any(),
            mask_bits: kani::any(),
            ff,
        },
        log_json_progress: false,
        temperature: 0.0,
        reporter: Reporter,
        last_res: StepResult::noop(),
        started: false,
        pending_stop: false,
    }
}

// compute_mask: a stop result exactly when the engine says the text is complete and cannot be extended (or the mask came back
// empty: NoExtensionBias); otherwise the engine's mask; any other failure is an error, not a result
#[kani::proof]
#[kani::unwind(6)]
fn p18c_compute_mask() {
    let mut c = any_constraint();
    let stop_now = c.parser.stop_after == 0;
    let me = c.parser.mask_err;
    let bits = c.parser.mask_bits & 0xF;
    let r = c.compute_mask().map(|_| ());
    assert!(c.parser.started && c.started);
    if stop_now {
        assert!(r.is_ok() && c.step_result().is_stop() && c.has_pending_stop());
        assert!(c.parser.n_mask == 0);
    } else if me == 0 {
        assert!(r.is_ok() && !c.step_result().is_stop());
        let t: TokenId = kani::any();
        kani::assume((t as usize) < V);
        let m = c.step_result().sample_mask.as_ref().unwrap();
        assert!(m.is_allowed(t) == (bits & (1 << t) != 0));
        assert!(c.step_result().splices.is_empty());
    } else if me == 1 {
        assert!(r.is_ok() && c.step_result().is_stop());
    } else {
        assert!(r.is_err());
    }
    kani::cover!(stop_now);
    kani::cover!(!stop_now && me == 1);
    kani::cover!(!stop_now && me == 0 && bits == 5);
    std::mem::forget(c);
}

// after a stop result: asking for another mask is an error, committing returns the stop again; neither touches the engine
#[kani::proof]
#[kani::unwind(6)]
fn p18c_after_stop() {
    let mut c = any_constraint();
    let r = c.compute_mask().map(|_| ());
    kani::assume(r.is_ok() && c.step_result().is_stop());
    let n_mask = c.parser.n_mask;
    let n_cs = c.parser.n_check_stop;
    let which: bool = kani::any();
    if which {
        assert!(c.compute_mask().is_err());
    } else {
        let t: Option<TokenId> = if kani::any() { Some(kani::any()) } else { None };
        let cr = c.commit_token(t);
        match cr {
            Ok(cr) => assert!(cr.stop && cr.ff_tokens.is_empty() && cr.backtrack == 0),
            Err(_) => assert!(false),
        }
    }
    assert!(c.step_result().is_stop());
    let vc_6 = c.parser.n_consumed == 0 && c.parser.n_mask == n_mask && c.parser.n_check_stop == n_cs;
    assert!(vc_6);
    kani::cover!(which);
    kani::cover!(!which);
    std::mem::forget(c);
}

// commit_token after a mask: the sampled token is required, is committed exactly once, fast-forward tokens follow it only when
// the caller can take them, the result lists exactly what was committed, and a stop detected now is reported by the NEXT step
#[kani::proof]
#[kani::unwind(6)]
fn p18c_commit() {
    let mut c = any_constraint();
    let r = c.compute_mask().map(|_| ());
    kani::assume(r.is_ok() && !c.step_result().is_stop());
    let sampled: Option<TokenId> = if kani::any() { Some(kani::any()) } else { None };
    let ff = c.parser.ff;
    let caps_ff = c.parser.inference_caps.ff_tokens;
    let cr = c.commit_token(sampled);
    match (sampled, cr) {
        (None, cr) => {
            assert!(cr.is_err());
            assert!(c.parser.n_consumed == 0);
        }
        (Some(t), Ok(cr)) => {
            assert!(!cr.stop && cr.backtrack == 0);
            let want_ff = caps_ff && ff.is_some();
            assert!(cr.ff_tokens.len() == if want_ff { 2 } else { 1 });
            assert!(cr.ff_tokens[0] == t && c.parser.consumed[0] == t);
            if want_ff {
                assert!(cr.ff_tokens[1] == ff.unwrap() && c.parser.consumed[1] == ff.unwrap());
            }
            assert!(c.parser.n_consumed == cr.ff_tokens.len());
            assert!(c.has_pending_stop() == (c.parser.stop_after <= c.parser.n_consumed));
            // the next step reports the stop
            let pending = c.has_pending_stop();
            let r2 = c.compute_mask().map(|_| ());
            if pending {
                assert!(r2.is_ok() && c.step_result().is_stop());
            }
        }
        (Some(_), Err(_)) => {
            assert!(!c.parser.consume_ok || c.parser.n_consumed >= 1);
            assert!(c.parser.stop_reason != StopReason::NotStopped);
        }
    }
    kani::cover!(sampled.is_none());
    kani::cover!(sampled.is_some() && c.has_pending_stop());
    kani::cover!(sampled.is_some() && caps_ff && ff.is_some() && c.parser.n_consumed == 2);
    std::mem::forget(c);
}

#[kani::proof]
#[kani::unwind(6)]
fn cproto_witness_must_fail() {
    let mut c = any_constraint();
    let r = c.compute_mask().map(|_| ());
    // wrong on purpose: claims the first step is never a stop
    assert!(r.is_err() || !c.step_result().is_stop());
    std::mem::forget(c);
}
