// Kani harness — child module of llguidance::tokenparser. K13.4: the byte accounting of TokenParser::process_prompt.
// The statements of process_prompt from `let (tokens, num_fixed) = self.token_env.tokenize_bytes_marker(&prompt_bytes);` up to the end of
// the `if chop_bytes <= grm_bytes.len() { .. } else { .. }` block are cut from /repo's current source (infoln! lines removed) and run in a
// mock TokenParser: tokens are single bytes (tokenisation and decoding are inverse — the canonical-tokenizer assumption the function
// asserts), tokenize_and_chop drops a given number of trailing tokens and reports their byte length (the contract decided by K13.1).
// Decided, for every content of the prompt and of the forced grammar bytes: returned prompt ++ pending text == prompt ++ forced bytes.
use super::*;

struct MockTrie {
    lead_space: bool,
}

impl MockTrie {
    fn decode_raw(&self, toks: &[TokenId]) -> Vec<u8> {
        let mut r = Vec::with_capacity(toks.len() + 1);
        // SentencePiece-style decoders put a space in front of the first piece
        if self.lead_space && !toks.is_empty() {
            r.push(b' ');
        }
        let mut i = 0;
        while i < toks.len() {
            r.push(toks[i] as u8);
            i += 1;
        }
        r
    }
}

struct MockEnv {
    lead_space: bool,
}

impl MockEnv {
    fn tokenize_bytes_marker(&self, b: &[u8]) -> (Vec<TokenId>, usize) {
        let mut r = Vec::with_capacity(b.len());
        let mut i = 0;
        while i < b.len() {
            r.push(b[i] as TokenId);
            i += 1;
        }
        (r, 0)
    }
    fn tok_trie(&self) -> MockTrie {
        MockTrie { lead_space: self.lead_space }
    }
}

struct MockParser {
    applied: Option<usize>,
}

impl MockParser {
    fn apply_forced(&mut self, n: usize) {
        assert!(self.applied.is_none());
        self.applied = Some(n);
    }
}

struct MockTP {
    token_env: MockEnv,
    parser: MockParser,
    llm_bytes: Vec<u8>,
    llm_tokens: Vec<TokenId>,
    grm_prefix: Vec<u8>,
    chop: usize,
}

impl MockTP {
    fn tok_trie(&self) -> MockTrie {
        self.token_env.tok_trie()
    }
    fn tokenize_and_chop(&mut self, mut tokens: Vec<TokenId>, num_fixed: usize) -> (Vec<TokenId>, usize) {
        // K13.1: n_tok <= tokens.len() - num_fixed, n_bytes = bytes of the dropped tokens (one byte per token here)
        assert!(self.chop <= tokens.len() - num_fixed);
        tokens.truncate(tokens.len() - self.chop);
        (tokens, self.chop)
    }
    #[allow(unused_variables, unused_mut, clippy::all)]
    fn prompt_tail(&mut self, prompt_bytes: Vec<u8>, grm_bytes: Vec<u8>) -> Vec<TokenId> {
        include!("verif_process_prompt_slice.rs")
    }
}

fn k13_4_body<const P: usize, const G: usize, const CHOP: usize>() {
    let p: [u8; P] = kani::any();
    let g: [u8; G] = kani::any();
    let lead_space: bool = kani::any();
    let mut prompt_bytes = Vec::with_capacity(P + G);
    let mut i = 0;
    while i < P {
        prompt_bytes.push(p[i]);
        i += 1;
    }
    let mut grm_bytes = Vec::with_capacity(G);
    let mut i = 0;
    while i < G {
        grm_bytes.push(g[i]);
        prompt_bytes.push(g[i]);
        i += 1;
    }
    let mut tp = MockTP {
        token_env: MockEnv { lead_space },
        parser: MockParser { applied: None },
        llm_bytes: Vec::new(),
        llm_tokens: Vec::new(),
        grm_prefix: Vec::new(),
        chop: CHOP,
    };
    let res = tp.prompt_tail(prompt_bytes, grm_bytes);
    // what the caller gets back, as bytes
    assert!(res.len() == P + G - CHOP);
    let mut i = 0;
    while i < res.len() {
        let want = if i < P { p[i] } else { g[i - P] };
        assert!(res[i] == want as TokenId);
        i += 1;
    }
    if CHOP <= G {
        // grammar bytes moved into the prompt are marked as applied; the chopped tail stays pending in the parser
        assert!(tp.parser.applied == Some(G - CHOP));
        let hack = tp.grm_prefix.len();
        assert!(hack <= 1);
        assert!(tp.llm_bytes.len() == hack + G - CHOP);
        if hack == 1 {
            assert!(lead_space && tp.grm_prefix[0] == b' ' && tp.llm_bytes[0] == b' ');
        }
        let mut i = 0;
        while i < G - CHOP {
            assert!(tp.llm_bytes[hack + i] == g[i]);
            assert!(tp.llm_tokens[i] == g[i] as TokenId);
            i += 1;
        }
        assert!(tp.llm_tokens.len() == G - CHOP);
    } else {
        // part of the prompt itself was chopped: it becomes the mandatory prefix of the grammar
        assert!(tp.parser.applied.is_none());
        assert!(tp.llm_bytes.is_empty() && tp.llm_tokens.is_empty());
        assert!(tp.grm_prefix.len() == CHOP - G);
        let mut i = 0;
        while i < CHOP - G {
            assert!(tp.grm_prefix[i] == p[P - (CHOP - G) + i]);
            i += 1;
        }
    }
    // witnesses (written so that every instance can satisfy each of them)
    let hack = if CHOP <= G { tp.grm_prefix.len() } else { 0 };
    kani::cover!(CHOP >= G || hack == 1);
    kani::cover!(CHOP >= G || hack == 0);
    kani::cover!(CHOP <= G || tp.grm_prefix.len() == CHOP - G);
}

inst!(k13_4_prompt_p2_g2_c0, k13_4_body, 8, 2, 2, 0);
inst!(k13_4_prompt_p2_g2_c1, k13_4_body, 8, 2, 2, 1);
inst!(k13_4_prompt_p2_g2_c2, k13_4_body, 8, 2, 2, 2);
inst!(k13_4_prompt_p2_g2_c3, k13_4_body, 8, 2, 2, 3);
inst!(k13_4_prompt_p2_g2_c4, k13_4_body, 8, 2, 2, 4);
inst!(k13_4_prompt_p0_g2_c1, k13_4_body, 8, 0, 2, 1);
inst!(k13_4_prompt_p2_g0_c1, k13_4_body, 8, 2, 0, 1);
inst!(k13_4_prompt_p3_g1_c2, k13_4_body, 8, 3, 1, 2);
inst!(k13_4_prompt_p1_g3_c2, k13_4_body, 8, 1, 3, 2);
inst!(k13_4_prompt_p0_g0_c0, k13_4_body, 8, 0, 0, 0);

#[kani::proof]
#[kani::unwind(8)]
fn k13_4_witness_must_fail() {
    let p: [u8; 2] = kani::any();
    let mut tp = MockTP {
        token_env: MockEnv { lead_space: false },
        parser: MockParser { applied: None },
        llm_bytes: Vec::new(),
        llm_tokens: Vec::new(),
        grm_prefix: Vec::new(),
        chop: 1,
    };
    let res = tp.prompt_tail(vec![p[0], p[1]], vec![]);
    // wrong on purpose: claims nothing of the prompt is handed to the grammar as a prefix
    assert!(tp.grm_prefix.is_empty());
    let _ = res;
}
