// Kani harness — child module of llguidance::matcher (E1c: function slices). P18m: the error / stop protocol of Matcher.
// Matcher::{with_inner, consume_tokens, consume_token, rollback, reset, compute_mask, compute_mask_or_eos, is_accepting, is_stopped,
// stop_reason, compute_ff_tokens, consume_ff_tokens, compute_ff_bytes, try_consume_tokens, validate_tokens, is_error} are cut
// VERBATIM from /repo's current matcher.rs and re-hosted on local copies of the Matcher / MatcherState / MatcherInner type
// definitions whose TokenParser is a stub: every call is counted and logged, answers are symbolic.  panic_utils::catch_unwind is
// replaced by a plain call (panics cannot be modelled: Kani treats them as failures), anyhow!/bail!/ensure! build no message.
use super::*;
// explicit imports: the harness must not depend on which names the real module happens to import
#[allow(unused_imports)]
use crate::api::StopReason;
#[allow(unused_imports)]
use ::toktrie::{SimpleVob, TokenId};

#[derive(Debug, Clone, Copy, PartialEq)]
pub struct MockErr;
type Result<T> = core::result::Result<T, MockErr>;

macro_rules! ensure {
    ($c:expr, $($t:tt)*) => {
        if !($c) {
            return Err(MockErr);
        }
    };
}
macro_rules! bail {
    ($($t:tt)*) => {
        return Err(MockErr)
    };
}
macro_rules! anyhow {
    ($($t:tt)*) => {
        MockErr
    };
}
mod panic_utils {
    pub fn catch_unwind<T, F: FnOnce() -> super::Result<T>>(f: std::panic::AssertUnwindSafe<F>) -> super::Result<T> {
        (f.0)()
    }
}

const V: usize = 4;
const EOS: TokenId = 3;
const MAXT: usize = 4;

struct MockTrie;
impl MockTrie {
    fn eos_token_set(&self) -> SimpleVob {
        let mut s = SimpleVob::alloc(V);
        s.allow_token(EOS);
        s
    }
}
struct MockEnv {
    t: MockTrie,
}
impl MockEnv {
    fn tok_trie(&self) -> &MockTrie {
        &self.t
    }
}

// the stub TokenParser: a log of what the Matcher asked for, and symbolic answers
struct TokenParser {
    token_env: MockEnv,
    stop_reason: StopReason,
    consumed: [TokenId; MAXT],
    n_consumed: usize,
    n_validate: usize,
    n_check_stop: usize,
    n_mask: usize,
    n_rollback: usize,
    n_other: usize,
    // answers
    valid_upto: usize,   // validate_token answers true for the first `valid_upto` tokens asked after the last reset of the counter
    consume_fail_at: usize, // consume_token fails at this call index (usize::MAX: never)
    backtrack_at: usize,
    stop_after: usize,   // check_stop answers true once this many tokens were consumed
    mask_fails: bool,
    ff: Option<TokenId>,
}

impl TokenParser {
    fn consume_token(&mut self, t: TokenId) -> Result<usize> {
        if self.stop_reason != StopReason::NotStopped {
            return Err(MockErr);
        }
        if self.n_consumed == self.consume_fail_at || self.n_consumed >= MAXT {
            self.stop_reason = StopReason::InternalError;
            return Err(MockErr);
        }
        self.consumed[self.n_consumed] = t;
        self.n_consumed += 1;
        if self.n_consumed - 1 == self.backtrack_at {
            Ok(1)
        } else {
            Ok(0)
        }
    }
    fn check_stop(&mut self) -> Result<bool> {
        self.n_check_stop += 1;
        if self.stop_reason == StopReason::NotStopped && self.n_consumed >= self.stop_after {
            self.stop_reason = StopReason::NoExtension;
            return Ok(true);
        }
        Ok(self.stop_reason != StopReason::NotStopped)
    }
    fn validate_token(&mut self, _t: TokenId) -> Result<bool> {
        if self.stop_reason != StopReason::NotStopped {
            return Ok(false);
        }
        self.n_validate += 1;
        Ok(self.n_validate <= self.valid_upto)
    }
    fn validate_tokens_raw(&mut self, tokens: &[TokenId]) -> Result<usize> {
        self.n_other += 1;
        Ok(if self.valid_upto < tokens.len() { self.valid_upto } else { tokens.len() })
    }
    fn rollback(&mut self, n: usize) -> Result<()> {
        self.n_rollback += 1;
        if n > self.n_consumed || !self.stop_reason.is_ok() {
            return Err(MockErr);
        }
        self.n_consumed -= n;
        self.stop_reason = StopReason::NotStopped;
        Ok(())
    }
    fn reset(&mut self) -> Result<()> {
        self.rollback(self.n_consumed)
    }
    fn compute_mask(&mut self) -> Result<SimpleVob> {
        self.n_mask += 1;
        if self.stop_reason != StopReason::NotStopped || self.mask_fails {
            if self.stop_reason == StopReason::NotStopped {
                self.stop_reason = StopReason::NoExtensionBias;
            }
            return Err(MockErr);
        }
        let mut s = SimpleVob::alloc(V);
        s.allow_token(0);
        Ok(s)
    }
    fn stop_reason(&self) -> StopReason {
        self.stop_reason
    }
    // the rest of TokenParser's public query surface (a rewritten caller may use any of it)
    fn stopped(&self) -> bool {
        self.stop_reason != StopReason::NotStopped
    }
    fn error_message(&self) -> Option<String> {
        None
    }
    fn num_tokens(&self) -> usize {
        self.n_consumed
    }
    fn is_accepting(&mut self) -> bool {
        self.n_other += 1;
        false
    }
    fn compute_ff_tokens(&mut self) -> Vec<TokenId> {
        self.n_other += 1;
        match self.ff {
            Some(t) => vec![t],
            None => Vec::new(),
        }
    }
    fn force_bytes(&mut self) -> Vec<u8> {
        self.n_other += 1;
        Vec::new()
    }
    fn augment_err(&self, _e: MockErr) -> String {
        String::new()
    }
    fn calls(&self) -> usize {
        self.n_consumed + self.n_validate + self.n_check_stop + self.n_mask + self.n_rollback + self.n_other
    }
}

struct MatcherInner {
    parser: TokenParser,
}
enum MatcherState {
    Normal(MatcherInner),
    Error(String),
}
struct Matcher(MatcherState);

include!("verif_matcher_fns.rs");

fn any_matcher() -> Matcher {
    let p = TokenParser {
        token_env: MockEnv { t: MockTrie },
        stop_reason: StopReason::NotStopped,
        consumed: [0; MAXT],
        n_consumed: 0,
        n_validate: 0,
        n_check_stop: 0,
        n_mask: 0,
        n_rollback: 0,
        n_other: 0,
        valid_upto: kani::any(),
        consume_fail_at: kani::any(),
        backtrack_at: usize::MAX,
        stop_after: kani::any(),
        mask_fails: kani::any(),
        ff: None,
    };
    Matcher(MatcherState::Normal(MatcherInner { parser: p }))
}

fn inner(m: &Matcher) -> Option<&TokenParser> {
    match &m.0 {
        MatcherState::Normal(i) => Some(&i.parser),
        MatcherState::Error(_) => None,
    }
}

fn any_call(m: &mut Matcher, which: u8) -> bool {
    // returns true iff the call reported success
    let t: TokenId = kani::any();
    match which {
        0 => m.consume_token(t).is_ok(),
        1 => m.rollback(1).is_ok(),
        2 => m.compute_mask().is_ok(),
        3 => m.validate_tokens(&[t]).is_ok(),
        4 => m.try_consume_tokens(&[t]).is_ok(),
        5 => m.is_accepting().is_ok(),
        6 => m.reset().is_ok(),
        _ => m.compute_mask_or_eos().is_ok(),
    }
}

// a call that fails leaves the Matcher permanently failed: it reports an error state, every later call fails too (fast-forward
// queries answer "nothing"), and the engine underneath is never touched again
#[kani::proof]
#[kani::unwind(6)]
fn p18m_error_is_sticky() {
    let mut m = any_matcher();
    let w1: u8 = kani::any();
    let ok1 = any_call(&mut m, w1);
    kani::assume(!ok1);
    assert!(m.is_error());
    assert!(m.is_stopped());
    assert!(m.stop_reason() == StopReason::InternalError);
    assert!(inner(&m).is_none());
    let w2: u8 = kani::any();
    assert!(!any_call(&mut m, w2));
    assert!(m.compute_ff_tokens().is_empty());
    assert!(m.consume_ff_tokens().is_empty());
    assert!(m.compute_ff_bytes().is_empty());
    assert!(m.is_error());
    kani::cover!(w1 == 0);
    kani::cover!(w1 == 2);
    kani::cover!(w1 == 1);
    std::mem::forget(m);
}

// consume_tokens commits the tokens in order, each once, and asks for the stop check once, after the last one; a backtrack
// request from the engine is an error
fn p18m_consume_body<const N: usize>() {
    let mut m = any_matcher();
    let bt: usize = kani::any();
    if let MatcherState::Normal(i) = &mut m.0 {
        i.parser.backtrack_at = bt;
    }
    let toks: [TokenId; N] = kani::any();
    let r = m.consume_tokens(&toks);
    match inner(&m) {
        Some(p) => {
            assert!(r.is_ok());
            let vc_11 = p.n_consumed == N && p.n_check_stop == 1 && p.n_validate == 0 && p.n_mask == 0;
            assert!(vc_11);
            let i: usize = kani::any();
            kani::assume(i < N);
            assert!(p.consumed[i] == toks[i]);
            assert!(bt >= N);
            assert!(m.is_stopped() == (p.stop_after <= N));
        }
        None => assert!(r.is_err()),
    }
    kani::cover!(r.is_ok() && m.is_stopped());
    kani::cover!(r.is_err());
    kani::cover!(r.is_ok() && !m.is_stopped());
    std::mem::forget(m);
}

inst!(p18m_consume_n1, p18m_consume_body, 6, 1);
inst!(p18m_consume_n3, p18m_consume_body, 6, 3);

// try_consume_tokens returns exactly the number of leading tokens the engine validated, and committed exactly those, in order
fn p01m_try_consume_body<const N: usize>() {
    let mut m = any_matcher();
    let toks: [TokenId; N] = kani::any();
    let r = m.try_consume_tokens(&toks);
    if let Some(p) = inner(&m) {
        // after a stop the engine validates nothing; the stop check runs after each committed token
        let stop_cut = if p.stop_after == 0 { 1 } else { p.stop_after };
        let mut want = if p.valid_upto < N { p.valid_upto } else { N };
        if stop_cut < want {
            want = stop_cut;
        }
        assert!(r == Ok(want));
        assert!(p.n_consumed == want);
        let i: usize = kani::any();
        kani::assume(i < want);
        assert!(p.consumed[i] == toks[i]);
        assert!(p.n_check_stop == want);
    } else {
        assert!(r.is_err());
    }
    kani::cover!(matches!(r, Ok(n) if n > 0 && n < N));
    kani::cover!(matches!(r, Ok(n) if n == N));
    kani::cover!(r.is_err());
    std::mem::forget(m);
}

inst!(p01m_try_consume_n2, p01m_try_consume_body, 6, 2);
inst!(p01m_try_consume_n3, p01m_try_consume_body, 6, 3);

// after a (regular) stop: compute_mask_or_eos yields exactly the end-of-sequence set without asking the engine for a mask;
// compute_mask is an error; rollback brings a regularly stopped engine back
#[kani::proof]
#[kani::unwind(6)]
fn p18m_after_stop() {
    let mut m = any_matcher();
    let t: TokenId = kani::any();
    let r = m.consume_tokens(&[t]);
    kani::assume(r.is_ok() && m.is_stopped());
    assert!(m.stop_reason() == StopReason::NoExtension);
    let which: u8 = kani::any();
    if which == 0 {
        let s = m.compute_mask_or_eos();
        match s {
            Ok(s) => {
                let k: TokenId = kani::any();
                kani::assume((k as usize) < V);
                assert!(s.is_allowed(k) == (k == EOS));
                assert!(inner(&m).unwrap().n_mask == 0);
            }
            Err(_) => assert!(false),
        }
    } else if which == 1 {
        assert!(m.compute_mask().is_err());
        assert!(m.is_error());
    } else {
        let n0 = inner(&m).unwrap().n_consumed;
        assert!(m.rollback(1).is_ok());
        assert!(!m.is_stopped());
        assert!(inner(&m).unwrap().n_consumed == n0 - 1);
    }
    kani::cover!(which == 0);
    kani::cover!(which == 2);
    std::mem::forget(m);
}

#[kani::proof]
#[kani::unwind(6)]
fn mproto_witness_must_fail() {
    let mut m = any_matcher();
    let t: TokenId = kani::any();
    let r = m.consume_tokens(&[t]);
    // wrong on purpose: claims a successful commit never stops the engine
    assert!(r.is_err() || !m.is_stopped());
    std::mem::forget(m);
}
