// Kani harness — child module of llguidance::ffi (E1c: function slices). K17.4: the llg_matcher_* entry points of the C API.
// llg_matcher_{compute_mask_into, compute_mask, get_mask, get_mask_byte_size, consume_token, consume_tokens, rollback, reset,
// is_accepting, is_stopped, validate_tokens, compute_ff_tokens}, slice_from_ptr_or_empty and LlgMatcher::{wrap, clear_mask, mask_elts}
// are cut VERBATIM from /repo's current ffi.rs (attributes and `pub extern "C"` dropped) and re-hosted on a local copy of the
// LlgMatcher struct whose Matcher is a stub (call log, symbolic answers).  Caller buffers are allocated with exactly the length the
// caller declares, so any access beyond them is a CBMC pointer violation.  Decided: what the C caller gets is what the Rust call
// returned (counts, tokens, mask words, status codes), and buffers are respected.
use super::*;
use ::toktrie::SimpleVob;

#[derive(Debug, Clone, Copy, PartialEq)]
pub struct MockErr;
impl MockErr {
    fn to_string(&self) -> String {
        String::new()
    }
}
type Result<T> = core::result::Result<T, MockErr>;

macro_rules! ensure {
    ($c:expr, $($t:tt)*) => {
        if !($c) {
            return Err(MockErr);
        }
    };
}
fn make_c_string(_s: String) -> String {
    String::new()
}

const MAXT: usize = 3;

struct MockTrie {
    v: usize,
}
impl MockTrie {
    fn vocab_size(&self) -> usize {
        self.v
    }
}
struct TokEnv {
    t: MockTrie,
}
impl TokEnv {
    fn tok_trie(&self) -> &MockTrie {
        &self.t
    }
}

struct Matcher {
    error: bool,
    // log
    got: [u32; MAXT],
    n_got: usize,
    consume_calls: usize,
    validate_calls: usize,
    rollback_arg: Option<usize>,
    reset_calls: usize,
    mask_calls: usize,
    // answers
    call_fails: bool,
    validate_answer: usize,
    ff: [u32; MAXT],
    n_ff: usize,
    mask_words: [u32; 2],
    vocab: usize,
    accepting: bool,
    stopped: bool,
}

impl Matcher {
    fn is_error(&self) -> bool {
        self.error
    }
    fn log(&mut self, tokens: &[u32]) {
        assert!(tokens.len() <= MAXT);
        self.n_got = tokens.len();
        let mut i = 0;
        while i < tokens.len() {
            self.got[i] = tokens[i];
            i += 1;
        }
    }
    fn fail(&mut self) -> Result<()> {
        if self.call_fails {
            self.error = true;
            Err(MockErr)
        } else {
            Ok(())
        }
    }
    fn consume_token(&mut self, t: u32) -> Result<()> {
        self.consume_calls += 1;
        self.log(&[t]);
        self.fail()
    }
    fn consume_tokens(&mut self, tokens: &[u32]) -> Result<()> {
        self.consume_calls += 1;
        self.log(tokens);
        self.fail()
    }
    fn validate_tokens(&mut self, tokens: &[u32]) -> Result<usize> {
        self.validate_calls += 1;
        self.log(tokens);
        self.fail()?;
        Ok(self.validate_answer)
    }
    fn rollback(&mut self, n: usize) -> Result<()> {
        self.rollback_arg = Some(n);
        self.fail()
    }
    fn reset(&mut self) -> Result<()> {
        self.reset_calls += 1;
        self.fail()
    }
    fn compute_mask_or_eos(&mut self) -> Result<SimpleVob> {
        self.mask_calls += 1;
        self.fail()?;
        // shaped like alloc_token_set: vocab bits, one spare word
        let mut s = SimpleVob::alloc_with_capacity(self.vocab, self.vocab + 1);
        let mut t = 0;
        while t < self.vocab {
            if self.mask_words[t / 32] & (1 << (t % 32)) != 0 {
                s.allow_token(t as u32);
            }
            t += 1;
        }
        Ok(s)
    }
    fn is_accepting(&mut self) -> Result<bool> {
        if self.error {
            Err(MockErr)
        } else {
            Ok(self.accepting)
        }
    }
    fn is_stopped(&self) -> bool {
        self.stopped || self.error
    }
    fn compute_ff_tokens(&mut self) -> Vec<u32> {
        let mut v = Vec::with_capacity(MAXT);
        let mut i = 0;
        while i < self.n_ff {
            v.push(self.ff[i]);
            i += 1;
        }
        v
    }
}

struct LlgMatcher {
    last_error: Option<String>,
    matcher: Matcher,
    saved_mask: Option<SimpleVob>,
    tok_env: TokEnv,
}

include!("verif_ffim_fns.rs");

fn any_llgm<const VOCAB: usize>() -> LlgMatcher {
    any_llgm_ff::<VOCAB>(1)
}

// the number of fast-forward tokens is concrete per instance: Kani 0.68 mis-models memcpy / memset with a symbolic count
fn any_llgm_ff<const VOCAB: usize>(n_ff: usize) -> LlgMatcher {
    LlgMatcher {
        last_error: None,
        matcher: Matcher {
            error: kani::any(),
            got: [0; MAXT],
            n_got: 0,
            consume_calls: 0,
            validate_calls: 0,
            rollback_arg: None,
            reset_calls: 0,
            mask_calls: 0,
            call_fails: kani::any(),
            validate_answer: kani::any(),
            ff: kani::any(),
            n_ff,
            mask_words: kani::any(),
            vocab: VOCAB,
            accepting: kani::any(),
            stopped: kani::any(),
        },
        saved_mask: None,
        tok_env: TokEnv { t: MockTrie { v: VOCAB } },
    }
}

// token lists: consume_tokens / validate_tokens hand the engine exactly the caller's n tokens and return its verdict
fn k17_4_tokens_body<const N: usize>() {
    let mut m = any_llgm::<33>();
    let was_error = m.matcher.error;
    let buf: [u32; N] = kani::any();
    let null_ptr: bool = kani::any();
    let ptr = if null_ptr || N == 0 { std::ptr::null() } else { buf.as_ptr() };
    let validate: bool = kani::any();
    let want_n = if null_ptr { 0 } else { N };
    let rc = if validate { unsafe { llg_matcher_validate_tokens(&mut m, ptr, want_n) } } else { unsafe { llg_matcher_consume_tokens(&mut m, ptr, want_n) } };
    if was_error {
        assert!(rc == -1);
        assert!(m.matcher.consume_calls == 0 && m.matcher.validate_calls == 0);
    } else {
        assert!(m.matcher.consume_calls + m.matcher.validate_calls == 1);
        assert!(m.matcher.n_got == want_n);
        if want_n > 0 {
            let i: usize = kani::any();
            kani::assume(i < want_n);
            assert!(m.matcher.got[i] == buf[i]);
        }
        if m.matcher.call_fails {
            assert!(rc == -1);
        } else if validate {
            let a = m.matcher.validate_answer;
            assert!(rc == if a > i32::MAX as usize { i32::MAX } else { a as i32 });
        } else {
            assert!(rc == 0);
        }
    }
    kani::cover!(!was_error && validate && rc == 2);
    kani::cover!(!was_error && !validate && rc == 0 && want_n == N);
    kani::cover!(rc == -1 && !was_error);
    std::mem::forget(m);
}

inst!(k17_4_tokens_n0, k17_4_tokens_body, 6, 0);
inst!(k17_4_tokens_n1, k17_4_tokens_body, 6, 1);
inst!(k17_4_tokens_n3, k17_4_tokens_body, 6, 3);

// fast-forward tokens: exactly min(available, output_len) tokens are written, they are the first ones the engine reported, the
// count is returned, nothing is written past output_len
fn k17_4_ff_body<const OUT: usize, const NFF: usize>() {
    let mut m = any_llgm_ff::<33>(NFF);
    let was_error = m.matcher.error;
    let mut out = [0xAAAA_AAAAu32; OUT];
    let null_ptr: bool = kani::any();
    let ptr = if null_ptr { std::ptr::null_mut() } else { out.as_mut_ptr() };
    let rc = unsafe { llg_matcher_compute_ff_tokens(&mut m, ptr, OUT) };
    if null_ptr || was_error {
        assert!(rc == -1);
    } else {
        let n = if m.matcher.n_ff < OUT { m.matcher.n_ff } else { OUT };
        assert!(rc == n as i32);
        let i: usize = kani::any();
        kani::assume(i < OUT);
        if i < n {
            assert!(out[i] == m.matcher.ff[i]);
        } else {
            assert!(out[i] == 0xAAAA_AAAA);
        }
    }
    let vc_7 = !null_ptr && !was_error && rc == (if NFF < OUT { NFF } else { OUT }) as i32;
    kani::cover!(vc_7);
    kani::cover!(null_ptr && !was_error);
    std::mem::forget(m);
}

inst!(k17_4_ff_out1_n0, k17_4_ff_body, 6, 1, 0);
inst!(k17_4_ff_out1_n2, k17_4_ff_body, 6, 1, 2);
inst!(k17_4_ff_out2_n1, k17_4_ff_body, 6, 2, 1);
inst!(k17_4_ff_out2_n2, k17_4_ff_body, 6, 2, 2);
inst!(k17_4_ff_out2_n3, k17_4_ff_body, 6, 2, 3);

// masks: compute_mask_into copies exactly the mask words when the caller's length is the advertised one and refuses otherwise;
// compute_mask / get_mask / get_mask_byte_size agree with it
fn k17_4_mask_body<const VOCAB: usize, const DEST: usize>() {
    let mut m = any_llgm::<VOCAB>();
    let was_error = m.matcher.error;
    let words = VOCAB.div_ceil(32);
    assert!(llg_matcher_get_mask_byte_size(&m) == words * 4);
    let mut dest = [0x5555_5555u32; DEST];
    let rc = unsafe { llg_matcher_compute_mask_into(&mut m, dest.as_mut_ptr(), DEST * 4) };
    let i: usize = kani::any();
    kani::assume(i < DEST);
    if was_error || m.matcher.call_fails || DEST != words {
        assert!(rc == -1);
        assert!(dest[i] == 0x5555_5555);
    } else {
        assert!(rc == 0);
        let keep = if (i + 1) * 32 <= VOCAB { u32::MAX } else { (1u32 << (VOCAB % 32)) - 1 };
        assert!(dest[i] == m.matcher.mask_words[i] & keep);
    }
    // the saved-mask variant
    if !was_error && !m.matcher.call_fails {
        assert!(llg_matcher_get_mask(&mut m).is_null());
        let rc2 = llg_matcher_compute_mask(&mut m);
        assert!(rc2 == 0);
        let p = llg_matcher_get_mask(&mut m);
        assert!(!p.is_null());
        let j: usize = kani::any();
        kani::assume(j < words);
        let keep = if (j + 1) * 32 <= VOCAB { u32::MAX } else { (1u32 << (VOCAB % 32)) - 1 };
        assert!(unsafe { *p.add(j) } == m.matcher.mask_words[j] & keep);
        // any state change drops the saved mask
        let _ = llg_matcher_consume_token(&mut m, 0);
        assert!(llg_matcher_get_mask(&mut m).is_null());
    }
    kani::cover!(DEST != words || rc == 0);
    kani::cover!(DEST == words || (rc == -1 && !was_error && !m.matcher.call_fails));
    std::mem::forget(m);
}

inst!(k17_4_mask_v33_d2, k17_4_mask_body, 36, 33, 2);
inst!(k17_4_mask_v33_d1, k17_4_mask_body, 36, 33, 1);
inst!(k17_4_mask_v33_d3, k17_4_mask_body, 36, 33, 3);
inst!(k17_4_mask_v32_d1, k17_4_mask_body, 36, 32, 1);
inst!(k17_4_mask_v31_d1, k17_4_mask_body, 36, 31, 1);

// status forwarders
#[kani::proof]
#[kani::unwind(6)]
fn k17_4_status() {
    let mut m = any_llgm::<33>();
    let was_error = m.matcher.error;
    let n: usize = kani::any();
    let which: u8 = kani::any();
    match which {
        0 => {
            let rc = llg_matcher_rollback(&mut m, n);
            if was_error {
                assert!(rc == -1 && m.matcher.rollback_arg.is_none());
            } else {
                assert!(m.matcher.rollback_arg == Some(n));
                assert!(rc == if m.matcher.call_fails { -1 } else { 0 });
            }
        }
        1 => {
            let rc = llg_matcher_reset(&mut m);
            assert!(m.matcher.reset_calls == if was_error { 0 } else { 1 });
            assert!(rc == if was_error || m.matcher.call_fails { -1 } else { 0 });
        }
        2 => assert!(llg_matcher_is_accepting(&mut m) == (!was_error && m.matcher.accepting)),
        3 => assert!(llg_matcher_is_stopped(&m) == (m.matcher.stopped || was_error)),
        _ => {
            let t: u32 = kani::any();
            let rc = llg_matcher_consume_token(&mut m, t);
            if !was_error {
                assert!(m.matcher.n_got == 1 && m.matcher.got[0] == t);
                assert!(rc == if m.matcher.call_fails { -1 } else { 0 });
            } else {
                assert!(rc == -1);
            }
        }
    }
    kani::cover!(which == 0 && !was_error);
    kani::cover!(which == 2 && !was_error && m.matcher.accepting);
    std::mem::forget(m);
}

#[kani::proof]
#[kani::unwind(6)]
fn k17_4_witness_must_fail() {
    let mut m = any_llgm::<33>();
    let mut out = [0u32; 2];
    m.matcher.error = false;
    let rc = unsafe { llg_matcher_compute_ff_tokens(&mut m, out.as_mut_ptr(), 2) };
    // wrong on purpose: claims fast-forward tokens are never returned
    assert!(rc <= 0);
    std::mem::forget(m);
}
