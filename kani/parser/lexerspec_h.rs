// Kani harness — child module of llguidance::earley::lexerspec. K19.2: contains_token == range membership.
use super::*;

#[kani::proof]
#[kani::unwind(5)]
fn k19_2_contains_token() {
    let lo: [u32; 3] = kani::any();
    let hi: [u32; 3] = kani::any();
    let n: usize = kani::any();
    kani::assume(n <= 3);
    let mut ranges = Vec::with_capacity(3);
    let mut i = 0;
    while i < 3 {
        if i < n {
            ranges.push(lo[i]..=hi[i]);
        }
        i += 1;
    }
    let t: u32 = kani::any();
    let mut expect = false;
    let mut i = 0;
    while i < 3 {
        if i < n && lo[i] <= t && t <= hi[i] {
            expect = true;
        }
        i += 1;
    }
    // the predicate the parser uses to admit a token at a <[...]> position: the real LexemeSpec::contains_token
    let spec = LexemeSpec {
        idx: LexemeIdx::new(1),
        single_set: MatchingLexemes::None,
        name: String::new(),
        rx: RegexAst::NoMatch,
        class: LexemeClass::ROOT,
        compiled_rx: ExprRef::NO_MATCH,
        ends_at_eos: false,
        lazy: false,
        contextual: false,
        max_tokens: usize::MAX,
        is_extra: false,
        is_suffix: false,
        is_skip: false,
        skip_repetition: SkipRepetition::Unbounded,
        json_options: None,
        token_ranges: ranges,
    };
    assert!(spec.contains_token(t) == expect);
    kani::cover!(expect && n == 3);
    kani::cover!(!expect && n == 2);
    core::mem::forget(spec);
}
