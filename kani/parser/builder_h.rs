// Kani harness — child module of llguidance::grammar_builder. K19.1: the range-negation loop of negated_token_ranges, cut out of the
// CURRENT source (verif_negated_slice.rs, generated on every run) into a function with the vocabulary size as a parameter.
use super::*;
use std::ops::RangeInclusive;

pub fn stub_format(_args: core::fmt::Arguments<'_>) -> String {
    String::new()
}

struct MockTrie(u32);
impl MockTrie {
    fn vocab_size(&self) -> usize {
        self.0 as usize
    }
}

fn negate<const N: usize>(sorted: [RangeInclusive<u32>; N], vocab: u32) -> Result<Vec<RangeInclusive<u32>>, ()> {
    let trie = MockTrie(vocab);
    let (min, max) = (0u32, trie.vocab_size() as u32 - 1);
    let negated = include!("verif_negated_slice.rs");
    Ok(negated)
}

fn h_negated<const N: usize>() {
    let vocab: u32 = kani::any();
    kani::assume(vocab >= 1);
    let lo: [u32; N] = kani::any();
    let hi: [u32; N] = kani::any();
    let v: [RangeInclusive<u32>; N] = core::array::from_fn(|i| lo[i]..=hi[i]);
    // the sort call of the real code is cut out of the slice (see parser_props.slice_negated): inputs ordered by start
    let mut i = 1;
    while i < N {
        kani::assume(lo[i - 1] <= lo[i]);
        i += 1;
    }
    let t: u32 = kani::any();
    kani::assume(t < vocab);
    match negate(v, vocab) {
        Err(_) => {
            // only malformed input is refused: some range is reversed or ends outside the vocabulary
            let mut bad = false;
            let mut i = 0;
            while i < N {
                if lo[i] > hi[i] || hi[i] >= vocab {
                    bad = true;
                }
                i += 1;
            }
            assert!(bad);
        }
        Ok(neg) => {
            assert!(neg.len() <= N + 1);
            let mut in_input = false;
            let mut i = 0;
            while i < N {
                if lo[i] <= t && t <= hi[i] {
                    in_input = true;
                }
                i += 1;
            }
            let mut in_neg = false;
            let mut prev_end: Option<u32> = None;
            let mut k = 0;
            while k < neg.len() {
                let (s, e) = (*neg[k].start(), *neg[k].end());
                assert!(s <= e && e < vocab);
                if let Some(p) = prev_end {
                    assert!(s > p, "negated ranges not sorted / overlapping");
                }
                prev_end = Some(e);
                if s <= t && t <= e {
                    in_neg = true;
                }
                k += 1;
            }
            assert!(in_neg == !in_input, "token in negation <=> not in any input range");
            kani::cover!(neg.len() == N + 1);
            kani::cover!(neg.is_empty());
        }
    }
}

#[kani::proof]
#[kani::unwind(6)]
fn k19_1_negated_ranges_n1() {
    h_negated::<1>();
}

#[kani::proof]
#[kani::unwind(6)]
fn k19_1_negated_ranges_n2() {
    h_negated::<2>();
}

#[kani::proof]
#[kani::unwind(7)]
fn k19_1_negated_ranges_n3() {
    h_negated::<3>();
}

#[kani::proof]
#[kani::unwind(6)]
fn k19_1_witness_must_fail() {
    let v = [3u32..=5u32];
    let r = negate(v, 10).unwrap();
    assert!(r.len() == 1);
}
