// Kani harnesses — child module of llguidance::earley::grammar (sees private items).
// C05-E1: ParamRef / ParamExpr / ParamCond against docs/parametric.md for every 64-bit value and every valid bit range.
// C15-E1: uf_find / uf_union / uf_compress_all on symbolic acyclic parent arrays.
use super::*;

fn any_ref() -> ParamRef {
    let s: u8 = kani::any();
    let e: u8 = kani::any();
    kani::assume(s < 64 && e <= 64 && s < e);
    ParamRef::new(s, e)
}

/// p[x:y] of the documentation, computed without shifts by >= 64
fn field(p: u64, x: u8, y: u8) -> u64 {
    let l = (y - x) as u32;
    let sh = p >> (x as u32);
    if l >= 64 {
        sh
    } else {
        sh & ((1u64 << l) - 1)
    }
}

fn all_ones(x: u8, y: u8) -> u64 {
    let l = (y - x) as u32;
    if l >= 64 {
        u64::MAX
    } else {
        (1u64 << l) - 1
    }
}

#[kani::proof]
fn c05_paramref_mask_eval() {
    let r = any_ref();
    let p: u64 = kani::any();
    let (x, y) = (r.start(), r.end());
    assert!(r.len() == (y - x) as usize && !r.is_empty());
    assert!(r.eval(ParamValue(p)).0 == field(p, x, y));
    // mask = ones exactly on [x, y)
    let k: u8 = kani::any();
    kani::assume(k < 64);
    assert!(((r.mask() >> k) & 1 == 1) == (k >= x && k < y));
    let vc_1 = ParamRef::full().mask() == u64::MAX && ParamRef::full().eval(ParamValue(p)).0 == p;
    assert!(vc_1);
    let b: u8 = kani::any();
    kani::assume(b < 64);
    assert!(ParamRef::single_bit(b).eval(ParamValue(p)).0 == (p >> b) & 1);
    kani::cover!(x == 0 && y == 64);
    kani::cover!(x == 63 && y == 64);
    kani::cover!(x == 5 && y == 9 && field(p, x, y) == 0b1010);
}

#[kani::proof]
fn c05_paramexpr_eval() {
    let r = any_ref();
    let p: u64 = kani::any();
    let v: u64 = kani::any();
    let (x, y) = (r.start(), r.end());
    let m = ParamValue(p);
    assert!(ParamExpr::Null.eval(m).0 == 0);
    assert!(ParamExpr::SelfRef.eval(m).0 == p);
    assert!(ParamExpr::Const(ParamValue(v)).eval(m).0 == v);
    assert!(ParamExpr::BitOr(ParamValue(v)).eval(m).0 == (p | v));
    assert!(ParamExpr::BitAnd(ParamValue(v)).eval(m).0 == (p & v));
    // incr([x:y]) => p[x:y] == 0b11...1 ? p : p + (1 << x)   (saturating inside the field, other bits untouched)
    let inc = ParamExpr::Incr(r).eval(m).0;
    let f = field(p, x, y);
    if f == all_ones(x, y) {
        assert!(inc == p);
    } else {
        assert!(field(inc, x, y) == f + 1);
        assert!(inc & !r.mask() == p & !r.mask());
    }
    let dec = ParamExpr::Decr(r).eval(m).0;
    if f == 0 {
        assert!(dec == p);
    } else {
        assert!(field(dec, x, y) == f - 1);
        assert!(dec & !r.mask() == p & !r.mask());
    }
    kani::cover!(f == all_ones(x, y) && y - x >= 2 && y < 64);
    kani::cover!(f == 0 && x > 0);
    kani::cover!(x == 0 && y == 64 && p == u64::MAX - 1);
    kani::cover!(x == 60 && y == 64 && f == 14);
}

#[kani::proof]
fn c05_paramcond_compare() {
    let r = any_ref();
    let p: u64 = kani::any();
    let v: u64 = kani::any();
    let (x, y) = (r.start(), r.end());
    let m = ParamValue(p);
    let f = field(p, x, y);
    let pv = ParamValue(v);
    assert!(ParamCond::True.eval(m));
    assert!(ParamCond::EQ(r, pv).eval(m) == (f == v));
    assert!(ParamCond::NE(r, pv).eval(m) == (f != v));
    assert!(ParamCond::LE(r, pv).eval(m) == (f <= v));
    assert!(ParamCond::LT(r, pv).eval(m) == (f < v));
    assert!(ParamCond::GE(r, pv).eval(m) == (f >= v));
    assert!(ParamCond::GT(r, pv).eval(m) == (f > v));
    kani::cover!(f == v && v > 3);
    kani::cover!(f < v && y == 64);
}

fn h_bitcount(which: u8) {
    let r = any_ref();
    let p: u64 = kani::any();
    let bc: u8 = kani::any();
    let (x, y) = (r.start(), r.end());
    let m = ParamValue(p);
    let ones = field(p, x, y).count_ones();
    match which {
        0 => assert!(ParamCond::BitCountEQ(r, bc).eval(m) == (ones == bc as u32)),
        1 => assert!(ParamCond::BitCountNE(r, bc).eval(m) == (ones != bc as u32)),
        2 => assert!(ParamCond::BitCountLE(r, bc).eval(m) == (ones <= bc as u32)),
        3 => assert!(ParamCond::BitCountLT(r, bc).eval(m) == (ones < bc as u32)),
        4 => assert!(ParamCond::BitCountGE(r, bc).eval(m) == (ones >= bc as u32)),
        _ => assert!(ParamCond::BitCountGT(r, bc).eval(m) == (ones > bc as u32)),
    }
    kani::cover!(ones == bc as u32 && bc >= 2);
}

#[kani::proof]
fn c05_paramcond_bitcount_eq_ne() {
    let w: u8 = kani::any();
    kani::assume(w < 2);
    h_bitcount(w);
}

#[kani::proof]
fn c05_paramcond_bitcount_le_lt() {
    let w: u8 = kani::any();
    kani::assume(w >= 2 && w < 4);
    h_bitcount(w);
}

#[kani::proof]
fn c05_paramcond_bitcount_ge_gt() {
    let w: u8 = kani::any();
    kani::assume(w >= 4 && w < 6);
    h_bitcount(w);
}

#[kani::proof]
#[kani::unwind(6)]
fn c05_paramcond_connectives() {
    let r = any_ref();
    let p: u64 = kani::any();
    let v: u64 = kani::any();
    let w: u64 = kani::any();
    let m = ParamValue(p);
    let a = ParamCond::LT(r, ParamValue(v));
    let b = ParamCond::GE(r, ParamValue(w));
    let c = ParamCond::NE(ParamRef::full(), ParamValue(w));
    let (ea, eb, ec) = (a.eval(m), b.eval(m), c.eval(m));
    let t = ParamCond::And(Box::new(a), Box::new(ParamCond::Or(Box::new(b), Box::new(ParamCond::Not(Box::new(c))))));
    assert!(t.eval(m) == (ea && (eb || !ec)));
    kani::cover!(ea && !eb && !ec);
    kani::cover!(ea && !eb && ec);
    core::mem::forget(t);
}

#[kani::proof]
fn c05_witness_must_fail() {
    let r = any_ref();
    let p: u64 = kani::any();
    let inc = ParamExpr::Incr(r).eval(ParamValue(p)).0;
    // wrong on purpose: forgets saturation
    assert!(inc == p.wrapping_add(1u64 << r.start()));
}

// ---------------------------------------------------------------------------------------- union-find of expand_shortcuts
const UFN: usize = 6;

fn any_forest() -> [Option<SymIdx>; UFN] {
    // acyclic parent array: entry i is None or points to a LARGER index (any acyclic forest can be numbered that way;
    // uf_union only ever links a root to another root, so reachable states are forests)
    let mut a: [Option<SymIdx>; UFN] = [None; UFN];
    let mut i = 0;
    while i < UFN {
        let has: bool = kani::any();
        if has {
            let t: u32 = kani::any();
            kani::assume((t as usize) > i && (t as usize) < UFN);
            a[i] = Some(SymIdx(t));
        }
        i += 1;
    }
    a
}

fn root_of(a: &[Option<SymIdx>; UFN], e: usize) -> usize {
    let mut r = e;
    let mut k = 0;
    while k < UFN {
        if let Some(q) = a[r] {
            r = q.as_usize();
        }
        k += 1;
    }
    r
}

#[kani::proof]
#[kani::unwind(8)]
fn c15_uf_find() {
    let mut a = any_forest();
    let a0 = a;
    let e: usize = kani::any();
    kani::assume(e < UFN);
    let r = uf_find(&mut a, SymIdx(e as u32));
    assert!(r.as_usize() == root_of(&a0, e));
    assert!(a[r.as_usize()].is_none());
    // path compression never changes anybody's root
    let x: usize = kani::any();
    kani::assume(x < UFN);
    assert!(root_of(&a, x) == root_of(&a0, x));
    kani::cover!(root_of(&a0, e) != e && a0[e].unwrap().as_usize() != root_of(&a0, e));
}

#[kani::proof]
#[kani::unwind(8)]
fn c15_uf_union() {
    let mut a = any_forest();
    let a0 = a;
    let x: usize = kani::any();
    let y: usize = kani::any();
    kani::assume(x < UFN && y < UFN);
    uf_union(&mut a, SymIdx(x as u32), SymIdx(y as u32));
    // afterwards x and y have the same root, classes not involved are untouched
    assert!(root_of(&a, x) == root_of(&a, y));
    let z: usize = kani::any();
    let w: usize = kani::any();
    kani::assume(z < UFN && w < UFN);
    let same_before = root_of(&a0, z) == root_of(&a0, w);
    let touches = |k: usize| root_of(&a0, k) == root_of(&a0, x) || root_of(&a0, k) == root_of(&a0, y);
    let same_after = root_of(&a, z) == root_of(&a, w);
    assert!(same_after == (same_before || (touches(z) && touches(w))));
    kani::cover!(root_of(&a0, x) != root_of(&a0, y));
}

#[kani::proof]
#[kani::unwind(8)]
fn c15_uf_compress_all() {
    let mut a = any_forest();
    let a0 = a;
    uf_compress_all(&mut a);
    let x: usize = kani::any();
    kani::assume(x < UFN);
    match a[x] {
        None => assert!(a0[x].is_none()),
        Some(t) => {
            assert!(a[t.as_usize()].is_none());
            assert!(t.as_usize() == root_of(&a0, x));
        }
    }
    kani::cover!(a0[x].is_some() && a0[x].unwrap().as_usize() != root_of(&a0, x));
}
