// Kani harness — child module of llguidance::earley::parser (E1c: function slices). P11s: speculation leaves no trace.
// ParserState::{run_speculative, trie_started_inner, trie_finished_inner, pop_lexer_states, lexer_state, num_rows,
// assert_definitive, assert_definitive_inner, check_lexer_bytes_invariant} are cut VERBATIM from /repo's current parser.rs and
// re-hosted in a mock parser state.  The speculative activity between trie_started and trie_finished (trie walk, validation,
// forced-byte probe, is_accepting) is an arbitrary sequence of pushes and pops of lexer states and grammar-stack nodes that never
// pops below the level at which it started (that is what K16.3 decides for the real walk) and may set the speculative-only flags.
// Decided: afterwards the lexer stack is, entry by entry, the stack before; the engine is back in definitive mode; the valid-row
// horizon, the flush position, the log override and the grammar stack are reset — nothing a later mask could see has changed.
use super::*;
// explicit imports: the harness must not depend on which names the real module happens to import
#[allow(unused_imports)]
use crate::earley::ParserStats;

macro_rules! item_trace {
    ($($t:tt)*) => {};
}
macro_rules! debug {
    ($($t:tt)*) => {};
}
mod serde_json {
    pub fn to_string<T>(_v: &T) -> core::result::Result<String, ()> {
        Ok(String::new())
    }
}
struct MockDur;
impl MockDur {
    fn as_micros(&self) -> u128 {
        0
    }
}
struct Instant;
impl Instant {
    fn now() -> Self {
        Instant
    }
    fn elapsed(&self) -> MockDur {
        MockDur
    }
}
struct MockDfa;
impl MockDfa {
    fn total_fuel_spent(&self) -> u64 {
        0
    }
}
struct MockLexer {
    dfa: MockDfa,
}
struct MockLexSpec;
impl MockLexSpec {
    fn can_rollback(&self) -> bool {
        true
    }
}
struct MockScratch {
    definitive: bool,
    log_override: bool,
    grammar_stack: Vec<u8>,
}

const MAXS: usize = 3; // speculative pushes

struct MockPS {
    scratch: MockScratch,
    trie_lexer_stack: usize,
    trie_grammar_stack: usize,
    lexer_stack: Vec<LexerState>,
    lexer_stack_top_eos: bool,
    lexer_stack_flush_position: usize,
    rows_valid_end: usize,
    trace_byte_stack: Vec<u8>,
    trace_stats0: ParserStats,
    trace_start: Instant,
    row_infos: Vec<u8>,
    bytes: Vec<u8>,
    stats: ParserStats,
    backtrack_byte_count: usize,
    lexer: MockLexer,
    spec: MockLexSpec,
}

impl MockPS {
    fn lexer(&self) -> &MockLexer {
        &self.lexer
    }
    fn lexer_spec(&self) -> &MockLexSpec {
        &self.spec
    }
}

include!("verif_pspec_fns.rs");

fn any_ls(row_idx: u32) -> LexerState {
    let ls: u32 = kani::any();
    kani::assume(ls >= 2 && ls < 6);
    let b: Option<u8> = if kani::any() { Some(kani::any()) } else { None };
    LexerState { row_idx, lexer_state: StateID::new(ls), byte: b }
}

fn p11s_body<const BASE: usize>() {
    // definitive state: BASE bytes consumed, rows 0..=r
    let mut lexer_stack = Vec::with_capacity(BASE + 1 + MAXS);
    let mut bytes = Vec::with_capacity(BASE);
    let mut row_infos = Vec::with_capacity(BASE + 1);
    let mut row = 0u32;
    lexer_stack.push(any_ls(0));
    row_infos.push(0u8);
    let mut i = 0;
    while i < BASE {
        if kani::any() {
            row += 1;
            row_infos.push(0u8);
        }
        lexer_stack.push(any_ls(row));
        bytes.push(kani::any());
        i += 1;
    }
    let mut gs = Vec::with_capacity(1 + MAXS);
    gs.push(0u8);
    let mut st = MockPS {
        scratch: MockScratch { definitive: true, log_override: false, grammar_stack: gs },
        trie_lexer_stack: kani::any(),
        trie_grammar_stack: kani::any(),
        lexer_stack,
        lexer_stack_top_eos: false,
        lexer_stack_flush_position: 0,
        rows_valid_end: row as usize + 1,
        trace_byte_stack: Vec::new(),
        trace_stats0: ParserStats::default(),
        trace_start: Instant,
        row_infos,
        bytes,
        stats: ParserStats::default(),
        backtrack_byte_count: 0,
        lexer: MockLexer { dfa: MockDfa },
        spec: MockLexSpec,
    };
    // snapshot
    let n0 = st.lexer_stack.len();
    let mut snap = [LexerState { row_idx: 0, lexer_state: StateID::new(2), byte: None }; 4];
    let mut i = 0;
    while i < n0 {
        snap[i] = st.lexer_stack[i];
        i += 1;
    }
    let rows0 = st.num_rows();
    let gs0 = st.scratch.grammar_stack.len();

    let ops: [u8; MAXS] = kani::any();
    let flush_pos: usize = kani::any();
    let r = st.run_speculative("verif", |s| {
        assert!(!s.scratch.definitive);
        let base = s.lexer_stack.len();
        let mut k = 0;
        while k < MAXS {
            match ops[k] & 3 {
                0 => {
                    // a byte goes through: one more lexer state, in the current row or a new one
                    let top = s.lexer_stack[s.lexer_stack.len() - 1];
                    let nr = if kani::any() { top.row_idx + 1 } else { top.row_idx };
                    s.lexer_stack.push(any_ls(nr));
                }
                1 => {
                    // the walk backs up (never below where it started)
                    let n: usize = kani::any();
                    kani::assume(n <= s.lexer_stack.len() - base);
                    s.pop_lexer_states(n);
                }
                2 => {
                    s.scratch.grammar_stack.push(1);
                    s.scratch.log_override = true;
                }
                _ => {
                    s.lexer_stack_flush_position = flush_pos;
                }
            }
            k += 1;
        }
        s.lexer_stack.len() - base
    });
    // no trace
    assert!(st.lexer_stack.len() == n0);
    let i: usize = kani::any();
    kani::assume(i < n0);
    let a = st.lexer_stack[i];
    let vc_5 = a.row_idx == snap[i].row_idx && a.lexer_state == snap[i].lexer_state && a.byte == snap[i].byte;
    assert!(vc_5);
    assert!(st.scratch.definitive);
    assert!(st.num_rows() == rows0 && st.rows_valid_end == rows0);
    assert!(st.lexer_stack_flush_position == 0);
    assert!(!st.scratch.log_override);
    assert!(st.scratch.grammar_stack.len() == gs0);
    kani::cover!(r == 2);
    kani::cover!(r == 0 && (ops[0] & 3) == 0);
    kani::cover!((ops[0] & 3) == 3 && flush_pos == 7);
    std::mem::forget(st);
}

inst!(p11s_speculation_base0, p11s_body, 6, 0);
inst!(p11s_speculation_base2, p11s_body, 6, 2);

#[kani::proof]
#[kani::unwind(6)]
fn p11s_witness_must_fail() {
    let mut lexer_stack = Vec::with_capacity(4);
    lexer_stack.push(any_ls(0));
    let mut st = MockPS {
        scratch: MockScratch { definitive: true, log_override: false, grammar_stack: vec![0u8] },
        trie_lexer_stack: 0,
        trie_grammar_stack: 0,
        lexer_stack,
        lexer_stack_top_eos: false,
        lexer_stack_flush_position: 0,
        rows_valid_end: 1,
        trace_byte_stack: Vec::new(),
        trace_stats0: ParserStats::default(),
        trace_start: Instant,
        row_infos: vec![0u8],
        bytes: Vec::new(),
        stats: ParserStats::default(),
        backtrack_byte_count: 0,
        lexer: MockLexer { dfa: MockDfa },
        spec: MockLexSpec,
    };
    let seen = st.run_speculative("verif", |s| {
        s.lexer_stack.push(any_ls(0));
        s.lexer_stack.len()
    });
    // wrong on purpose: claims the speculative push is still there
    assert!(st.lexer_stack.len() == seen);
    std::mem::forget(st);
}
