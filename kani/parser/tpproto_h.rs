// Kani harness — child module of llguidance::tokenparser (E1c: function slices).
// The functions listed in vlib/parser_props.py (TP_FNS) are cut VERBATIM from /repo's current tokenparser.rs and re-hosted in
// `impl MockTP` (verif_tp_fns.rs, generated per run).  MockTP has the fields of TokenParser the functions touch, with the real
// types where they are plain data (StopReason, ParserError, ParserStats, InferenceCapabilities, SimpleVob) and stubs for the
// collaborators: the Earley `Parser` is a byte stack whose answers (accepting / can_advance / accepts-this-token / forced
// bytes) are symbolic functions of that stack, the trie is a 4-token table with symbolic token lengths (0..=2 bytes), `ensure!`,
// `format!`, `infoln!`, `warn!`, `anyhow` are shadowed by local definitions (error *construction* is what CBMC cannot get
// through).  What is decided is therefore the bookkeeping TokenParser does around ANY parser that honours the stub contract:
// the contract is part of the claim and is listed in the evidence.
use super::*;
// explicit imports: the harness must not depend on which names the real module happens to import
#[allow(unused_imports)]
use crate::api::StopReason;
#[allow(unused_imports)]
use crate::earley::{ParserError, ParserStats};
#[allow(unused_imports)]
use ::toktrie::{InferenceCapabilities, SimpleVob, TokenId, INVALID_TOKEN};

#[derive(Debug, Clone, Copy, PartialEq)]
pub struct MockErr;
type Result<T> = core::result::Result<T, MockErr>;

macro_rules! ensure {
    ($c:expr, $($t:tt)*) => {
        if !($c) {
            return Err(MockErr);
        }
    };
}
macro_rules! infoln {
    ($($t:tt)*) => {};
}
macro_rules! warn {
    ($($t:tt)*) => {};
}
macro_rules! format {
    ($($t:tt)*) => {
        String::new()
    };
}
mod anyhow {
    pub type Error = super::MockErr;
    macro_rules! anyhow_mock {
        ($($t:tt)*) => {
            MockErr
        };
    }
    pub(crate) use anyhow_mock as anyhow;
}

mod toktrie {
    pub type TokTrie = super::MockTrie;
}

const V: usize = 4; // vocabulary: tokens 0..3; token 3 is the end-of-sequence token
const EOS: TokenId = 3;
const MAXB: usize = 6;

struct MockTrie {
    lens: [usize; V],
    bytes: [[u8; 2]; V],
}

impl MockTrie {
    fn vocab_size(&self) -> usize {
        V
    }
    // contract (decided for the real trie by K16.6): token_len(t) == decode_raw(&[t]).len()
    fn token_len(&self, t: TokenId) -> usize {
        self.lens[t as usize]
    }
    fn decode_raw(&self, toks: &[TokenId]) -> Vec<u8> {
        let mut r = Vec::with_capacity(2);
        let t = toks[0] as usize;
        let mut i = 0;
        while i < self.lens[t] {
            r.push(self.bytes[t][i]);
            i += 1;
        }
        r
    }
    fn singleton_token_set(&self, t: TokenId) -> SimpleVob {
        let mut s = SimpleVob::alloc(V);
        s.allow_token(t);
        s
    }
}

struct MockEnv {
    trie: MockTrie,
    canonical: bool,
}

impl MockEnv {
    fn tok_trie(&self) -> &MockTrie {
        &self.trie
    }
    fn tokenize_is_canonical(&self) -> bool {
        self.canonical
    }
}

struct MockLexSpec {
    no_forcing: bool,
}
struct MockGrammar {
    spec: MockLexSpec,
}
impl MockGrammar {
    fn lexer_spec(&self) -> &MockLexSpec {
        &self.spec
    }
}

// The Earley parser as a byte stack. Every answer is a function of the stack *depth* (tables are symbolic), so the same state
// always answers the same way — which is what lets "rollback restores the state" be checked structurally.
struct MockParser {
    applied: Vec<u8>,
    grammar: MockGrammar,
    accepting_at: [bool; MAXB + 1],
    can_advance_at: [bool; MAXB + 1],
    pending_lexeme_at: [bool; MAXB + 1],
    accepts_token_at: [bool; MAXB + 1], // whether apply_token succeeds from this depth
    scan_eos_at: [bool; MAXB + 1],
    error_at: [u8; MAXB + 1], // 0 none, 1 lexer error, 2 parser error
    forced: Vec<u8>,
    bias_bits: u32,
    validate_answer: usize,
    rollback_calls: usize,
    apply_calls: usize,
}

impl MockParser {
    fn d(&self) -> usize {
        self.applied.len()
    }
    fn is_accepting(&mut self) -> bool {
        self.accepting_at[self.d()]
    }
    fn can_advance(&self) -> bool {
        self.can_advance_at[self.d()]
    }
    fn has_pending_lexeme_bytes(&self) -> bool {
        self.pending_lexeme_at[self.d()]
    }
    fn scan_eos(&mut self) -> bool {
        self.scan_eos_at[self.d()]
    }
    fn get_error(&self) -> Option<ParserError> {
        match self.error_at[self.d()] {
            0 => None,
            1 => Some(ParserError::LexerError(String::new())),
            _ => Some(ParserError::ParserError(String::new())),
        }
    }
    fn grammar(&self) -> &MockGrammar {
        &self.grammar
    }
    fn currently_forced_bytes(&self) -> &[u8] {
        &self.forced
    }
    fn force_bytes(&mut self) {}
    fn log_row_infos(&mut self, _l: &str) {}
    fn additional_backtrack(&mut self, _n: usize) {}
    // contract of Parser::apply_token: on success exactly the passed bytes are appended to the definitive byte history
    fn apply_token(&mut self, tok_bytes: &[u8], _tok: TokenId) -> Result<usize> {
        self.apply_calls += 1;
        if !self.accepts_token_at[self.d()] || self.d() + tok_bytes.len() > MAXB {
            return Err(MockErr);
        }
        let mut i = 0;
        while i < tok_bytes.len() {
            self.applied.push(tok_bytes[i]);
            i += 1;
        }
        Ok(0)
    }
    // contract of Parser::rollback: fails without effect when asked for more bytes than it holds, else drops exactly n bytes
    fn rollback(&mut self, n: usize) -> Result<()> {
        self.rollback_calls += 1;
        if n > self.applied.len() {
            return Err(MockErr);
        }
        let l = self.applied.len() - n;
        self.applied.truncate(l);
        Ok(())
    }
    fn validate_tokens(&mut self, tokens: &[TokenId]) -> usize {
        if self.validate_answer <= tokens.len() {
            self.validate_answer
        } else {
            tokens.len()
        }
    }
}

struct MockTP {
    token_env: MockEnv,
    parser: MockParser,
    inference_caps: InferenceCapabilities,
    last_step_stats: ParserStats,
    eos_tokens: Vec<TokenId>,
    had_rollback: bool,
    had_backtrack: bool,
    is_accepting_cache: Option<bool>,
    ff_tokens_cache: Option<(Vec<TokenId>, Vec<u8>)>,
    stop_reason: StopReason,
    error_message: Option<String>,
    max_tokens_total: usize,
    llm_tokens: Vec<TokenId>,
    llm_bytes: Vec<u8>,
    bare_eos_idx: Vec<usize>,
    grm_prefix: Vec<u8>,
    is_fresh: bool,
    // stub answers
    ff_answer_tok: Option<TokenId>,
}

impl MockTP {
    // collaborators of the sliced functions that are not themselves sliced (tokenisation of forced bytes, the trie walk)
    fn ff_tokens(&mut self) -> (Vec<TokenId>, Vec<u8>) {
        match self.ff_answer_tok {
            Some(t) => (vec![t], Vec::new()),
            None => (Vec::new(), Vec::new()),
        }
    }
    fn compute_bias(&mut self, _prefix: &[u8]) -> SimpleVob {
        let mut s = SimpleVob::alloc(V);
        let mut t = 0;
        while t < V {
            if self.parser.bias_bits & (1 << t) != 0 {
                s.allow_token(t as u32);
            }
            t += 1;
        }
        s
    }
    fn log_final(&mut self, _p: &[u8], _a: &SimpleVob) {}
}

include!("verif_tp_fns.rs");

fn any_trie_max(maxlen: usize, exact: bool) -> MockTrie {
    let mut lens: [usize; V] = kani::any();
    let bytes: [[u8; 2]; V] = kani::any();
    let mut i = 0;
    while i < V {
        kani::assume(lens[i] <= maxlen);
        if exact && i < EOS as usize {
            // ordinary tokens have exactly maxlen bytes: vector lengths stay concrete (two-token histories: 18 GB / 18 min otherwise)
            lens[i] = maxlen;
        }
        i += 1;
    }
    MockTrie { lens, bytes }
}

fn any_parser() -> MockParser {
    MockParser {
        applied: Vec::with_capacity(MAXB),
        grammar: MockGrammar { spec: MockLexSpec { no_forcing: kani::any() } },
        accepting_at: kani::any(),
        can_advance_at: kani::any(),
        pending_lexeme_at: kani::any(),
        accepts_token_at: kani::any(),
        scan_eos_at: [false; MAXB + 1],
        error_at: [0; MAXB + 1],
        forced: Vec::new(),
        bias_bits: kani::any(),
        validate_answer: kani::any(),
        rollback_calls: 0,
        apply_calls: 0,
    }
}

/// an arbitrary *consistent* TokenParser state after N0 ordinary (non-EOS) tokens: the representation invariant is
/// llm_bytes == grm_prefix-free concatenation of the token bytes == the parser's byte history
fn any_state<const N0: usize>() -> MockTP {
    any_state_max::<N0>(2, false)
}

fn any_state_max<const N0: usize>(maxlen: usize, exact: bool) -> MockTP {
    let trie = any_trie_max(maxlen, exact);
    let mut parser = any_parser();
    let mut llm_tokens = Vec::with_capacity(N0 + 3);
    let mut llm_bytes = Vec::with_capacity(MAXB);
    let mut k = 0;
    while k < N0 {
        let t: TokenId = kani::any();
        kani::assume(t < EOS);
        llm_tokens.push(t);
        let mut i = 0;
        while i < trie.lens[t as usize] {
            llm_bytes.push(trie.bytes[t as usize][i]);
            parser.applied.push(trie.bytes[t as usize][i]);
            i += 1;
        }
        k += 1;
    }
    let acc_cache: Option<bool> = if kani::any() { Some(parser.accepting_at[parser.applied.len()]) } else { None };
    MockTP {
        token_env: MockEnv { trie, canonical: kani::any() },
        parser,
        inference_caps: InferenceCapabilities::default(),
        last_step_stats: ParserStats::default(),
        eos_tokens: vec![EOS],
        had_rollback: kani::any(),
        had_backtrack: false,
        is_accepting_cache: acc_cache,
        ff_tokens_cache: None,
        stop_reason: StopReason::NotStopped,
        error_message: None,
        max_tokens_total: kani::any(),
        llm_tokens,
        llm_bytes,
        bare_eos_idx: Vec::with_capacity(4),
        grm_prefix: Vec::new(),
        is_fresh: false,
        ff_answer_tok: None,
    }
}

fn same_bytes(a: &[u8], b: &[u8]) -> bool {
    if a.len() != b.len() {
        return false;
    }
    let mut i = 0;
    while i < a.len() {
        if a[i] != b[i] {
            return false;
        }
        i += 1;
    }
    true
}

fn same_toks(a: &[TokenId], b: &[TokenId]) -> bool {
    if a.len() != b.len() {
        return false;
    }
    let mut i = 0;
    while i < a.len() {
        if a[i] != b[i] {
            return false;
        }
        i += 1;
    }
    true
}

// ------------------------------------------------------------------------------------------------------------ P12 rollback
// commit K tokens (each accepted, each possibly the end-of-sequence token, with or without a check_stop() after it, as the
// Matcher does), then rollback(K): the token list, the byte list, the parser's byte history, the token budget, the stop
// status and the per-state caches are those of the state before the K tokens.
struct Snap {
    nt: usize,
    toks: [TokenId; 4],
    nb: usize,
    bytes: [u8; MAXB],
    na: usize,
    applied: [u8; MAXB],
}

fn snap(tp: &MockTP) -> Snap {
    let mut s = Snap { nt: tp.llm_tokens.len(), toks: [0; 4], nb: tp.llm_bytes.len(), bytes: [0; MAXB], na: tp.parser.applied.len(), applied: [0; MAXB] };
    let mut i = 0;
    while i < s.nt {
        s.toks[i] = tp.llm_tokens[i];
        i += 1;
    }
    let mut i = 0;
    while i < s.nb {
        s.bytes[i] = tp.llm_bytes[i];
        i += 1;
    }
    let mut i = 0;
    while i < s.na {
        s.applied[i] = tp.parser.applied[i];
        i += 1;
    }
    s
}

fn same_as(tp: &MockTP, s: &Snap) -> bool {
    same_toks(&tp.llm_tokens, &s.toks[..s.nt]) && same_bytes(&tp.llm_bytes, &s.bytes[..s.nb]) && same_bytes(&tp.parser.applied, &s.applied[..s.na])
}

fn p12_body<const N0: usize, const K: usize, const ML: usize>() {
    let mut tp = any_state_max::<N0>(ML, K >= 2);
    let s0 = snap(&tp);
    let budget0 = tp.max_tokens_total;
    let mut eos_seen = false;
    let mut eos_with_bytes = false;
    let mut k = 0;
    while k < K {
        let t: TokenId = kani::any();
        kani::assume((t as usize) < V);
        let d_before = tp.parser.applied.len();
        let r = tp.consume_token(t);
        kani::assume(r.is_ok()); // only committed tokens are rolled back
        assert!(r == Ok(0));
        if t == EOS {
            eos_seen = true;
            if tp.parser.applied.len() != d_before {
                eos_with_bytes = true;
            }
        }
        let call_check_stop: bool = kani::any();
        if call_check_stop && k + 1 == K {
            let _ = tp.check_stop();
        }
        kani::assume(!tp.stopped() || k + 1 == K);
        k += 1;
    }
    assert!(tp.llm_tokens.len() == N0 + K);
    let stopped_before = tp.stopped();
    let r = tp.rollback(K);
    assert!(r.is_ok());
    assert!(same_toks(&tp.llm_tokens, &s0.toks[..s0.nt]));
    assert!(same_bytes(&tp.llm_bytes, &s0.bytes[..s0.nb]));
    assert!(same_bytes(&tp.parser.applied, &s0.applied[..s0.na]));
    assert!(tp.max_tokens_total == budget0);
    assert!(!tp.stopped());
    assert!(tp.is_accepting_cache.is_none() && tp.ff_tokens_cache.is_none());
    assert!(tp.had_rollback);
    // representation invariant of the end-of-sequence bookkeeping: it only ever names tokens that are still there
    let mut j = 0;
    while j < tp.bare_eos_idx.len() {
        assert!(tp.bare_eos_idx[j] < tp.llm_tokens.len());
        j += 1;
    }
    kani::cover!(eos_seen && stopped_before);
    kani::cover!(eos_with_bytes);
    kani::cover!(!eos_seen && stopped_before);
    kani::cover!(N0 == 0 || s0.na >= 1);
}

inst!(p12_rollback_n0_k1, p12_body, 9, 0, 1, 2);
inst!(p12_rollback_n1_k1, p12_body, 9, 1, 1, 2);
// two-token instances (K = 2) were measured at 16-19 GB and 17 minutes each under CBMC and add nothing to the inductive step
// (the pre-state is an arbitrary consistent state, so histories of any length are covered by K = 1): not instantiated.

// rollback of more tokens than were committed, or in a failed state, is refused and changes nothing
fn p12_refuse_body<const N0: usize>() {
    let mut tp = any_state::<N0>();
    let fail: bool = kani::any();
    if fail {
        let rs: u8 = kani::any();
        tp.stop_reason = match rs {
            0 => StopReason::InternalError,
            1 => StopReason::LexerTooComplex,
            2 => StopReason::ParserTooComplex,
            3 => StopReason::MaxTokensTotal,
            _ => StopReason::MaxTokensParser,
        };
    }
    let s0 = snap(&tp);
    let n: usize = kani::any();
    kani::assume(n >= 1 && n <= 4);
    kani::assume(fail || n > N0);
    let sr0 = tp.stop_reason;
    let r = tp.rollback(n);
    assert!(r.is_err());
    assert!(same_as(&tp, &s0));
    assert!(tp.stop_reason == sr0);
    kani::cover!(fail && n <= N0);
    kani::cover!(!fail);
}

inst!(p12_refuse_n1, p12_refuse_body, 9, 1);
inst!(p12_refuse_n2, p12_refuse_body, 9, 2);

// ------------------------------------------------------------------------------------------------------------ P18 stop protocol
fn any_stop_reason() -> StopReason {
    let rs: u8 = kani::any();
    match rs {
        0 => StopReason::MaxTokensTotal,
        1 => StopReason::MaxTokensParser,
        2 => StopReason::NoExtension,
        3 => StopReason::NoExtensionBias,
        4 => StopReason::EndOfSentence,
        5 => StopReason::InternalError,
        6 => StopReason::LexerTooComplex,
        _ => StopReason::ParserTooComplex,
    }
}

// once stopped (for whatever reason) no token is accepted, validated or masked, and nothing moves
#[kani::proof]
#[kani::unwind(9)]
fn p18_stopped_is_final() {
    let mut tp = any_state::<1>();
    tp.stop_reason = any_stop_reason();
    let s0 = snap(&tp);
    let sr0 = tp.stop_reason;
    let t: TokenId = kani::any();
    let which: u8 = kani::any();
    match which {
        0 => assert!(tp.consume_token(t).is_err()),
        1 => assert!(tp.compute_mask_inner().is_err()),
        2 => assert!(tp.validate_token(t) == Ok(false)),
        3 => {
            let t2: TokenId = kani::any();
            assert!(tp.validate_tokens_raw(&[t, t2]) == Ok(0))
        }
        _ => {
            let _ = tp.is_accepting();
        }
    }
    assert!(tp.stop_reason == sr0);
    assert!(same_as(&tp, &s0));
    assert!(tp.parser.apply_calls == 0);
    kani::cover!(which == 0 && sr0 == StopReason::EndOfSentence);
    kani::cover!(which == 1 && sr0 == StopReason::NoExtension);
}

// check_stop: stops exactly when the text is complete and cannot be extended, or end-of-sequence was committed in an accepting
// state; the reason says which; a non-stop leaves the state untouched
#[kani::proof]
#[kani::unwind(9)]
fn p18_check_stop_exact() {
    let mut tp = any_state::<1>();
    let commit_eos: bool = kani::any();
    let d = tp.parser.applied.len();
    // nothing forced is pending (the engine asserts this in accepting states; forced bytes make is_accepting() false)
    let acc = tp.parser.accepting_at[d];
    let adv = tp.parser.can_advance_at[d];
    let mut eos_committed = false;
    if commit_eos {
        let r = tp.consume_token(EOS);
        // accepted as end-of-sequence (no bytes reached the parser) or refused
        if r.is_ok() && tp.parser.apply_calls == 0 {
            eos_committed = true;
            assert!(acc);
        }
        kani::assume(r.is_ok() && tp.parser.apply_calls == 0);
    }
    let r = tp.check_stop();
    let want = acc && (!adv || eos_committed);
    assert!(r == Ok(want));
    assert!(tp.stopped() == want);
    if want {
        let vc_8 = tp.stop_reason == if eos_committed { StopReason::EndOfSentence } else { StopReason::NoExtension };
        assert!(vc_8);
        assert!(tp.stop_reason.is_ok());
    }
    kani::cover!(want && eos_committed);
    kani::cover!(want && !eos_committed);
    kani::cover!(!want && acc);
}

// end-of-sequence in a state that is not accepting is never silently swallowed: it is either refused (error, engine failed)
// or its bytes were given to the parser like any other token
#[kani::proof]
#[kani::unwind(9)]
fn p18_eos_not_accepting() {
    let mut tp = any_state::<1>();
    let d = tp.parser.applied.len();
    kani::assume(!tp.parser.accepting_at[d]);
    let n0 = tp.llm_tokens.len();
    let r = tp.consume_token(EOS);
    if r.is_ok() {
        assert!(tp.parser.apply_calls == 1);
        assert!(tp.parser.applied.len() == d + tp.token_env.trie.lens[EOS as usize]);
        assert!(tp.llm_tokens.len() == n0 + 1);
    } else {
        assert!(tp.stopped() && !tp.stop_reason.is_ok());
    }
    kani::cover!(r.is_ok());
    kani::cover!(r.is_err());
}

// while grammar-forced text is pending (the parser ran ahead over forced bytes during a mask / fast-forward query) the state is
// NOT accepting for the caller, whatever the parser says about its own position: end-of-sequence is not taken as the end, the
// stop check does not stop, and the accepting flag is false
#[kani::proof]
#[kani::unwind(9)]
fn p18_pending_forced_text_is_not_accepting() {
    let mut tp = any_state::<1>();
    let fb: u8 = kani::any();
    tp.parser.forced.push(fb);
    tp.is_accepting_cache = None;
    let which: u8 = kani::any();
    if which == 0 {
        assert!(!tp.is_accepting());
    } else if which == 1 {
        let n0 = tp.llm_tokens.len();
        let r = tp.consume_token(EOS);
        if r.is_ok() {
            // it went to the parser as bytes (the grammar names the token), it did not end the sequence
            assert!(tp.parser.apply_calls == 1);
            assert!(tp.llm_tokens.len() == n0 + 1);
        } else {
            assert!(tp.stopped() && !tp.stop_reason.is_ok());
        }
    } else {
        kani::assume(tp.parser.can_advance_at[tp.parser.applied.len()]);
        let r = tp.check_stop();
        assert!(r == Ok(false) && !tp.stopped());
    }
    kani::cover!(which == 1 && tp.parser.accepting_at[tp.parser.applied.len()]);
    kani::cover!(which == 0 && tp.parser.accepting_at[tp.parser.applied.len()]);
}

// the mask: end-of-sequence is allowed whenever the state is accepting; an empty mask is never returned (it is a stop with
// NoExtensionBias instead); a parser error surfaces as a failed engine; token ids out of range fail the engine for good
#[kani::proof]
#[kani::unwind(9)]
fn p18_mask_protocol() {
    let mut tp = any_state::<1>();
    tp.parser.error_at = kani::any();
    let d = tp.parser.applied.len();
    kani::assume(tp.parser.error_at[d] <= 2);
    tp.token_env.canonical = false; // no fast-forward tokens: the mask comes from the walk
    let acc = tp.parser.accepting_at[d];
    let bits = tp.parser.bias_bits & 0xF;
    let r = tp.compute_mask_inner();
    match r {
        Ok(m) => {
            assert!(tp.parser.error_at[d] == 0);
            assert!(!m.is_zero());
            assert!(!tp.stopped());
            let t: TokenId = kani::any();
            kani::assume((t as usize) < V);
            let want = bits & (1 << t) != 0 || (t == EOS && acc);
            assert!(m.is_allowed(t) == want);
        }
        Err(_) => {
            assert!(tp.stopped());
            if tp.parser.error_at[d] == 0 {
                assert!(bits == 0 && !acc);
                assert!(tp.stop_reason == StopReason::NoExtensionBias);
            } else {
                assert!(!tp.stop_reason.is_ok());
            }
        }
    }
    kani::cover!(acc && bits == 0);
    kani::cover!(tp.stop_reason == StopReason::NoExtensionBias);
    kani::cover!(tp.stop_reason == StopReason::LexerTooComplex);
}

#[kani::proof]
#[kani::unwind(9)]
fn p18_out_of_range_token_fails_for_good() {
    let mut tp = any_state::<1>();
    let t: TokenId = kani::any();
    kani::assume(t as usize >= V);
    let s0 = snap(&tp);
    kani::assume(tp.max_tokens_total > 0);
    let via_validate: bool = kani::any();
    if via_validate {
        let t0: TokenId = kani::any();
        assert!(tp.validate_tokens_raw(&[t0, t]).is_err() || (t0 as usize) < V);
        kani::assume((t0 as usize) < V);
    } else {
        assert!(tp.consume_token(t).is_err());
    }
    assert!(tp.stop_reason == StopReason::InternalError);
    assert!(same_as(&tp, &s0));
    assert!(tp.parser.apply_calls == 0);
    // and it stays failed
    assert!(tp.consume_token(0).is_err());
    assert!(tp.compute_mask_inner().is_err());
    assert!(tp.rollback(1).is_err());
    kani::cover!(via_validate);
    kani::cover!(!via_validate && t == INVALID_TOKEN);
}

// the token budget: the call that would exceed max_tokens_total is refused with MaxTokensTotal and nothing is applied
#[kani::proof]
#[kani::unwind(9)]
fn p18_budget() {
    let mut tp = any_state::<1>();
    let b0 = tp.max_tokens_total;
    let t: TokenId = kani::any();
    kani::assume((t as usize) < V);
    let r = tp.consume_token(t);
    if b0 == 0 {
        let vc_9 = r.is_err() && tp.stop_reason == StopReason::MaxTokensTotal && tp.parser.apply_calls == 0;
        assert!(vc_9);
    } else {
        assert!(tp.max_tokens_total == b0 - 1);
    }
    kani::cover!(b0 == 0);
    kani::cover!(b0 == 1 && r.is_ok());
}

// ------------------------------------------------------------------------------------------------------------ P01 commit/validate
// a token the parser refuses is never recorded: after a failed consume_token the engine is failed and the byte history of the
// parser is untouched; after a successful one exactly the token's bytes were appended
#[kani::proof]
#[kani::unwind(9)]
fn p01_commit_accounting() {
    let mut tp = any_state::<1>();
    let s0 = snap(&tp);
    let t: TokenId = kani::any();
    kani::assume(t < EOS);
    kani::assume(tp.max_tokens_total > 0);
    let r = tp.consume_token(t);
    let l = tp.token_env.trie.lens[t as usize];
    if r.is_ok() {
        assert!(tp.llm_tokens.len() == 2 && tp.llm_tokens[1] == t);
        assert!(tp.llm_bytes.len() == s0.nb + l);
        assert!(tp.parser.applied.len() == s0.na + l);
        let i: usize = kani::any();
        kani::assume(i < l);
        assert!(tp.llm_bytes[s0.nb + i] == tp.token_env.trie.bytes[t as usize][i]);
        assert!(tp.parser.applied[s0.na + i] == tp.token_env.trie.bytes[t as usize][i]);
        assert!(same_bytes(&tp.llm_bytes, &tp.parser.applied));
    } else {
        assert!(tp.stopped() && !tp.stop_reason.is_ok());
        assert!(same_bytes(&tp.parser.applied, &s0.applied[..s0.na]));
    }
    kani::cover!(r.is_ok() && l == 2);
    kani::cover!(r.is_err());
}

// the pending grammar prefix (prompt bytes handed back to the grammar by process_prompt): tokens are matched against it byte
// by byte, only the bytes beyond it reach the parser, and a token that contradicts it fails the engine
fn p13_prefix_body<const PL: usize>() {
    let mut tp = any_state::<0>();
    let p: [u8; PL] = kani::any();
    let mut i = 0;
    while i < PL {
        tp.grm_prefix.push(p[i]);
        i += 1;
    }
    let t: TokenId = kani::any();
    kani::assume(t < EOS);
    kani::assume(tp.max_tokens_total > 0);
    let l = tp.token_env.trie.lens[t as usize];
    let tb = tp.token_env.trie.bytes[t as usize];
    let r = tp.consume_token(t);
    let common = if l < PL { l } else { PL };
    let mut matches = true;
    let mut i = 0;
    while i < common {
        if tb[i] != p[i] {
            matches = false;
        }
        i += 1;
    }
    if !matches {
        assert!(r.is_err() && tp.stop_reason == StopReason::InternalError);
        assert!(tp.parser.apply_calls == 0);
    } else if l <= PL {
        assert!(r == Ok(0));
        assert!(tp.parser.apply_calls == 0 && tp.parser.applied.is_empty());
        assert!(tp.llm_bytes.len() == l);
    } else if r.is_ok() {
        assert!(tp.parser.applied.len() == l - PL);
        assert!(tp.parser.applied[0] == tb[PL]);
        assert!(tp.llm_bytes.len() == l);
    }
    // forced bytes reported next = what is left of the prefix
    if r.is_ok() {
        let mut trg = Vec::new();
        tp.compute_ff_bytes_inner(&mut trg);
        let left = if l < PL { PL - l } else { 0 };
        assert!(trg.len() == left);
        if left > 0 {
            assert!(trg[0] == p[l]);
        }
    }
    kani::cover!(PL >= 2 || (matches && l > PL && r.is_ok()));
    kani::cover!(!matches);
    kani::cover!(PL < 2 || (matches && l < PL));
}

inst!(p13_prefix_pl1, p13_prefix_body, 9, 1);
inst!(p13_prefix_pl2, p13_prefix_body, 9, 2);

#[kani::proof]
#[kani::unwind(9)]
fn tpproto_witness_must_fail() {
    let mut tp = any_state::<1>();
    let t: TokenId = kani::any();
    kani::assume(t < EOS);
    let r = tp.consume_token(t);
    // wrong on purpose: claims no token is ever committed
    assert!(r.is_err());
}
