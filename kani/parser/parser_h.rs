// Kani harness — child module of llguidance::earley::parser. C20 kernel: Earley item packing.
use super::*;

#[kani::proof]
fn c20_item_packing() {
    let rule: u32 = kani::any();
    let start: usize = kani::any();
    kani::assume(start <= u32::MAX as usize);
    let it = Item::new(RhsPtr::from_index(rule), start);
    assert!(it.rhs_ptr().as_index() == rule as usize);
    assert!(it.start_pos() == start);
    // advancing the dot never leaks into the start position (rule tables are far below 2^32 entries)
    kani::assume(rule < u32::MAX);
    let a = it.advance_dot();
    assert!(a.rhs_ptr().as_index() == rule as usize + 1);
    assert!(a.start_pos() == start);
    assert!(a.rewind_dot() == it);
    kani::cover!(start == u32::MAX as usize && rule == u32::MAX - 1);
}

// ---------------------------------------------------------------- K13.3 forced_byte probe (source slice)
// The statements of the speculative closure of ParserState::forced_byte after `let mut r = ParserRecognizer { state };`
// are cut from /repo's current source and run against a mock recogniser whose set of viable bytes is symbolic:
// the probe reports Some(b) exactly when b is the one and only viable byte, for every lexer hint.
struct MockRec {
    viable: [bool; 256],
    depth: usize,
}

impl MockRec {
    fn try_push_byte(&mut self, b: u8) -> bool {
        if self.viable[b as usize] {
            self.depth += 1;
            true
        } else {
            false
        }
    }
    fn pop_bytes(&mut self, n: usize) {
        assert!(self.depth >= n);
        self.depth -= n;
    }
}

#[allow(unused_mut, unused_variables, clippy::all)]
fn k13_probe(quick_res: NextByte, r: &mut MockRec) -> Option<u8> {
    include!("verif_forced_byte_slice.rs")
}

fn k13_any_hint() -> NextByte {
    let k: u8 = kani::any();
    let a: u8 = kani::any();
    let b: u8 = kani::any();
    match k % 5 {
        0 => NextByte::ForcedEOI,
        1 => NextByte::SomeBytes0,
        2 => NextByte::SomeBytes1(a),
        3 => {
            // derivre reports two *distinct* example bytes
            kani::assume(a != b);
            NextByte::SomeBytes2([a, b])
        }
        _ => NextByte::Dead,
    }
}

#[kani::proof]
#[kani::unwind(258)]
fn k13_3_forced_byte_probe() {
    let viable: [bool; 256] = kani::any();
    let hint = k13_any_hint();
    let mut r = MockRec { viable, depth: 0 };
    let got = k13_probe(hint, &mut r);
    // specification: the unique viable byte, if there is exactly one
    let x: u8 = kani::any();
    let y: u8 = kani::any();
    match got {
        Some(b) => {
            assert!(viable[b as usize]);
            // no other byte is viable
            assert!(!viable[x as usize] || x == b);
        }
        None => {
            // either nothing is viable or at least two bytes are: x and y cannot witness "exactly one"
            if viable[x as usize] {
                // then some other byte is viable too: checked by counting
                let mut n = 0u32;
                let mut i = 0usize;
                while i < 256 {
                    if viable[i] {
                        n += 1;
                    }
                    i += 1;
                }
                assert!(n >= 2);
            }
        }
    }
    let _ = y;
    // every speculative push was popped again unless the probe stopped at the second viable byte
    assert!(r.depth <= 1);
    kani::cover!(got.is_some());
    kani::cover!(got.is_none() && viable[x as usize]);
    kani::cover!(got.is_none() && matches!(hint, NextByte::SomeBytes2(_)));
    kani::cover!(matches!(got, Some(b) if matches!(hint, NextByte::SomeBytes1(h) if h == b.wrapping_add(1))));
}

#[kani::proof]
#[kani::unwind(258)]
fn k13_3_witness_must_fail() {
    let viable: [bool; 256] = kani::any();
    let hint = k13_any_hint();
    let mut r = MockRec { viable, depth: 0 };
    let got = k13_probe(hint, &mut r);
    // wrong on purpose: claims the probe never finds a forced byte
    assert!(got.is_none());
}
