// Kani harness — child module of llguidance::earley::parser. C20 kernel: Earley item packing.
use super::*;

#[kani::proof]
fn c20_item_packing() {
    let rule: u32 = kani::any();
    let start: usize = kani::any();
    kani::assume(start <= u32::MAX as usize);
    let it = Item::new(RhsPtr::from_index(rule), start);
    assert!(it.rhs_ptr().as_index() == rule as usize);
    assert!(it.start_pos() == start);
    // advancing the dot never leaks into the start position (rule tables are far below 2^32 entries)
    kani::assume(rule < u32::MAX);
    let a = it.advance_dot();
    assert!(a.rhs_ptr().as_index() == rule as usize + 1);
    assert!(a.start_pos() == start);
    assert!(a.rewind_dot() == it);
    kani::cover!(start == u32::MAX as usize && rule == u32::MAX - 1);
}
