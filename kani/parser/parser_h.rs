// Kani harness — child module of llguidance::earley::parser. C20 kernel: Earley item packing.
use super::*;

#[kani::proof]
fn c20_item_packing() {
    let rule: u32 = kani::any();
    let start: usize = kani::any();
    kani::assume(start <= u32::MAX as usize);
    let it = Item::new(RhsPtr::from_index(rule), start);
    assert!(it.rhs_ptr().as_index() == rule as usize);
    assert!(it.start_pos() == start);
    // advancing the dot never leaks into the start position (rule tables are far below 2^32 entries)
    kani::assume(rule < u32::MAX);
    let a = it.advance_dot();
    assert!(a.rhs_ptr().as_index() == rule as usize + 1);
    assert!(a.start_pos() == start);
    assert!(a.rewind_dot() == it);
    kani::cover!(start == u32::MAX as usize && rule == u32::MAX - 1);
}

// ---------------------------------------------------------------- K13.3 forced_byte probe (source slice)
// The statements of the speculative closure of ParserState::forced_byte after `let mut r = ParserRecognizer { state };`
// are cut from /repo's current source and run against a mock recogniser whose set of viable bytes is symbolic:
// the probe reports Some(b) exactly when b is the one and only viable byte, for every lexer hint.
struct MockRec {
    viable: [bool; 256],
    depth: usize,
}

impl MockRec {
    fn try_push_byte(&mut self, b: u8) -> bool {
        if self.viable[b as usize] {
            self.depth += 1;
            true
        } else {
            false
        }
    }
    fn pop_bytes(&mut self, n: usize) {
        assert!(self.depth >= n);
        self.depth -= n;
    }
}

#[allow(unused_mut, unused_variables, clippy::all)]
fn k13_probe(quick_res: NextByte, r: &mut MockRec) -> Option<u8> {
    include!("verif_forced_byte_slice.rs")
}

fn k13_any_hint() -> NextByte {
    let k: u8 = kani::any();
    let a: u8 = kani::any();
    let b: u8 = kani::any();
    match k % 5 {
        0 => NextByte::ForcedEOI,
        1 => NextByte::SomeBytes0,
        2 => NextByte::SomeBytes1(a),
        3 => {
            // derivre reports two *distinct* example bytes
            kani::assume(a != b);
            NextByte::SomeBytes2([a, b])
        }
        _ => NextByte::Dead,
    }
}

#[kani::proof]
#[kani::unwind(258)]
fn k13_3_forced_byte_probe() {
    let viable: [bool; 256] = kani::any();
    let hint = k13_any_hint();
    let mut r = MockRec { viable, depth: 0 };
    let got = k13_probe(hint, &mut r);
    // specification: the unique viable byte, if there is exactly one
    let x: u8 = kani::any();
    let y: u8 = kani::any();
    match got {
        Some(b) => {
            assert!(viable[b as usize]);
            // no other byte is viable
            assert!(!viable[x as usize] || x == b);
        }
        None => {
            // either nothing is viable or at least two bytes are: x and y cannot witness "exactly one"
            if viable[x as usize] {
                // then some other byte is viable too: checked by counting
                let mut n = 0u32;
                let mut i = 0usize;
                while i < 256 {
                    if viable[i] {
                        n += 1;
                    }
                    i += 1;
                }
                assert!(n >= 2);
            }
        }
    }
    let _ = y;
    // every speculative push was popped again unless the probe stopped at the second viable byte
    assert!(r.depth <= 1);
    kani::cover!(got.is_some());
    kani::cover!(got.is_none() && viable[x as usize]);
    kani::cover!(got.is_none() && matches!(hint, NextByte::SomeBytes2(_)));
    let vc_4 = matches!(got, Some(b) if matches!(hint, NextByte::SomeBytes1(h) if h == b.wrapping_add(1)));
    kani::cover!(vc_4);
}

#[kani::proof]
#[kani::unwind(258)]
fn k13_3_witness_must_fail() {
    let viable: [bool; 256] = kani::any();
    let hint = k13_any_hint();
    let mut r = MockRec { viable, depth: 0 };
    let got = k13_probe(hint, &mut r);
    // wrong on purpose: claims the probe never finds a forced byte
    assert!(got.is_none());
}

// ---------------------------------------------------------------- K19.4 compute_bias after the trie walk (source slice)
// The statements of ParserState::compute_bias between the comment `The SPECIAL_TOKEN_MARKER should never be allowed by itself`
// and the cache update are cut from /repo's current source and run in a mock parser state: the mask left by the trie walk, the
// marker token id, the token ranges of the live token-range lexemes, flush_lexer()'s answer, the EOS id and lexer_allows_eos()
// are symbolic. Decided: bit t of the result == (walk bit t and t is not the bare marker token) or (start is empty, the lexer
// flushes and t lies in a range of a live token-range lexeme) or (t is EOS, start is empty and the lexer allows EOS).
struct MockSpec {
    // one range per lexeme, no heap: `for range in &spec.token_ranges` works on an array as well
    token_ranges: [std::ops::RangeInclusive<TokenId>; 1],
}

struct MockTrie {
    eos: TokenId,
}

impl MockTrie {
    fn eos_token(&self) -> TokenId {
        self.eos
    }
}

struct MockComputer {
    t: MockTrie,
}

impl MockComputer {
    fn trie(&self) -> &MockTrie {
        &self.t
    }
}

struct MockPState<const N: usize> {
    special_token_marker_token: TokenId,
    flush_ok: bool,
    allows_eos: bool,
    specs: [MockSpec; N],
}

impl<const N: usize> MockPState<N> {
    fn run_speculative<T>(&mut self, _lbl: &str, f: impl FnOnce(&mut Self) -> T) -> T {
        f(self)
    }
    fn flush_lexer(&mut self) -> bool {
        self.flush_ok
    }
    fn token_range_lexemes(&self) -> [&MockSpec; N] {
        self.specs.each_ref()
    }
    fn lexer_allows_eos(&mut self) -> bool {
        self.allows_eos
    }
    #[allow(unused_mut, clippy::all)]
    fn post(&mut self, computer: &MockComputer, start: &[u8], mut set: SimpleVob) -> SimpleVob {
        include!("verif_bias_post_slice.rs");
        set
    }
}

fn k19_4_body<const NSPEC: usize, const START: usize>() {
    const V: usize = 40; // two words, 24 spare bits
    let words: [u32; 2] = kani::any();
    let mut set = SimpleVob::alloc(V);
    let mut i = 0;
    while i < V {
        if words[i / 32] & (1 << (i % 32)) != 0 {
            set.allow_token(i as u32);
        }
        i += 1;
    }
    let marker: TokenId = kani::any();
    kani::assume(marker < V as u32 || marker == INVALID_TOKEN);
    let eos: TokenId = kani::any();
    kani::assume(eos < V as u32 || eos == INVALID_TOKEN);
    let mut lo = [0u32; 2];
    let mut hi = [0u32; 2];
    let mut k = 0;
    while k < NSPEC {
        lo[k] = kani::any();
        hi[k] = kani::any();
        kani::assume(lo[k] <= hi[k] && hi[k] < V as u32);
        k += 1;
    }
    let specs: [MockSpec; NSPEC] = std::array::from_fn(|k| MockSpec { token_ranges: [lo[k]..=hi[k]] });
    let flush_ok: bool = kani::any();
    let allows_eos: bool = kani::any();
    let mut st = MockPState { special_token_marker_token: marker, flush_ok, allows_eos, specs };
    let comp = MockComputer { t: MockTrie { eos } };
    let start_buf = [b'x'; 1];
    let start: &[u8] = &start_buf[..START];
    let out = st.post(&comp, start, set);
    let t: u32 = kani::any();
    kani::assume(t < V as u32);
    let walk = words[(t / 32) as usize] & (1 << (t % 32)) != 0;
    let mut in_range = false;
    let mut k = 0;
    while k < NSPEC {
        if lo[k] <= t && t <= hi[k] {
            in_range = true;
        }
        k += 1;
    }
    let want = (walk && t != marker) || (START == 0 && flush_ok && in_range) || (START == 0 && allows_eos && t == eos);
    assert!(out.is_allowed(t) == want);
    kani::cover!(NSPEC == 0 || (in_range && t == marker && flush_ok));
    kani::cover!(walk && t == marker);
    kani::cover!(START != 0 || (t == eos && allows_eos && !walk));
}

#[kani::proof]
#[kani::unwind(42)]
fn k19_4_bias_post_s0_n1() {
    k19_4_body::<1, 0>();
}

#[kani::proof]
#[kani::unwind(42)]
fn k19_4_bias_post_s0_n2() {
    k19_4_body::<2, 0>();
}

#[kani::proof]
#[kani::unwind(42)]
fn k19_4_bias_post_s1_n1() {
    k19_4_body::<1, 1>();
}

#[kani::proof]
#[kani::unwind(42)]
fn k19_4_bias_post_s0_n0() {
    k19_4_body::<0, 0>();
}

#[kani::proof]
#[kani::unwind(42)]
fn k19_4_witness_must_fail() {
    let mut set = SimpleVob::alloc(40);
    let m: TokenId = kani::any();
    kani::assume(m < 40);
    set.allow_token(m);
    let mut st = MockPState::<0> { special_token_marker_token: m, flush_ok: true, allows_eos: false, specs: [] };
    let comp = MockComputer { t: MockTrie { eos: INVALID_TOKEN } };
    let out = st.post(&comp, &[], set);
    // wrong on purpose: claims the bare marker token survives
    assert!(out.is_allowed(m));
}
