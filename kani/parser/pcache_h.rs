// Kani harness — child module of llguidance::earley::parser (E1c: function slices). P11: the mask cache of ParserState.
// ParserState::{compute_bias, with_items_limit, has_pending_lexeme_bytes, lexer_state, num_rows, rollback, assert_definitive,
// assert_definitive_inner, check_lexer_bytes_invariant} and Parser::invalidate_bias_cache are cut VERBATIM from /repo's current
// parser.rs and re-hosted in mock types (verif_pcache_fns.rs, generated per run).  Real types: LexerState, BiasCache, StateID,
// ParserStats, SimpleVob.  Stubs: the trie walk, flush_lexer(), lexer_allows_eos() answer as a symbolic FUNCTION of what the
// engine's answer can depend on — the lexer state on top of the stack, the *content* of the current Earley row (a ghost version
// number: a row keeps its version while it stays on the stack, a row pushed later gets a fresh one even at the same index) and
// whether the current lexeme has pending bytes.  Definitive progress is modelled as "push one byte, staying in the row or opening
// the next row"; rollback is the real function.  Decided: after any such history, a mask served (possibly) from the cache equals
// the mask computed after invalidate_bias_cache().
use super::*;
// explicit imports: the harness must not depend on which names the real module happens to import
#[allow(unused_imports)]
use crate::earley::ParserStats;
#[allow(unused_imports)]
use ::toktrie::{SimpleVob, TokenId, INVALID_TOKEN};

#[derive(Debug, Clone, Copy, PartialEq)]
pub struct MockErr;
type Result<T> = core::result::Result<T, MockErr>;

macro_rules! ensure {
    ($c:expr, $($t:tt)*) => {
        if !($c) {
            return Err(MockErr);
        }
    };
}
macro_rules! debug {
    ($($t:tt)*) => {};
}
macro_rules! format {
    ($($t:tt)*) => {
        String::new()
    };
}

struct MockDur;
impl MockDur {
    fn as_micros(&self) -> u128 {
        0
    }
}
struct Instant;
impl Instant {
    fn now() -> Self {
        Instant
    }
    fn elapsed(&self) -> MockDur {
        MockDur
    }
}
struct MockCounter;
impl MockCounter {
    fn record(&self, _d: MockDur) {}
}
struct MockPerf {
    compute_bias: MockCounter,
}
#[derive(Clone)]
struct MockLimits {
    step_lexer_fuel: u64,
    max_lexer_states: usize,
    step_max_items: usize,
}
struct MockDfa;
impl MockDfa {
    fn set_fuel(&mut self, _f: u64) {}
    fn set_max_states(&mut self, _n: usize) {}
    fn total_fuel_spent(&self) -> u64 {
        0
    }
}
struct MockLexer {
    dfa: MockDfa,
}
struct MockLexSpec;
impl MockLexSpec {
    fn can_rollback(&self) -> bool {
        true
    }
}
struct MockScratch {
    definitive: bool,
}
struct MockTrie {
    eos: TokenId,
}
impl MockTrie {
    fn eos_token(&self) -> TokenId {
        self.eos
    }
}
struct MockSpec {
    token_ranges: [std::ops::RangeInclusive<TokenId>; 0],
}

const NLS: usize = 3; // lexer states 2..4 (0 and 1 are DEAD / MISSING)
const NVER: usize = 4;
const VOC: usize = 4;

struct ParserRecognizer<'a> {
    state: &'a mut MockPS,
}

trait BiasComputer {
    fn compute_bias(&self, rec: &mut ParserRecognizer<'_>, start: &[u8]) -> SimpleVob;
    fn trie(&self) -> &MockTrie;
}

struct MockComputer {
    t: MockTrie,
}

impl BiasComputer for MockComputer {
    fn compute_bias(&self, rec: &mut ParserRecognizer<'_>, start: &[u8]) -> SimpleVob {
        rec.state.walks += 1;
        let (a, b, c) = rec.state.key();
        let mut bits = rec.state.walk_bits[a][b][c];
        if !start.is_empty() {
            bits &= rec.state.start_filter;
        }
        let mut s = SimpleVob::alloc(VOC);
        let mut t = 0;
        while t < VOC {
            if bits & (1 << t) != 0 {
                s.allow_token(t as u32);
            }
            t += 1;
        }
        s
    }
    fn trie(&self) -> &MockTrie {
        &self.t
    }
}

struct MockPS {
    parser_error: Option<String>,
    byte_to_token_idx: Vec<u32>,
    bytes: Vec<u8>,
    lexer_stack: Vec<LexerState>,
    lexer_stack_top_eos: bool,
    row_infos: Vec<u8>,
    token_idx: usize,
    last_force_bytes_len: usize,
    rows_valid_end: usize,
    scratch: MockScratch,
    backtrack_byte_count: usize,
    bias_cache: Option<BiasCache>,
    stats: ParserStats,
    perf_counters: MockPerf,
    limits: MockLimits,
    max_all_items: usize,
    special_token_marker_token: TokenId,
    lexer: MockLexer,
    spec: MockLexSpec,
    // ghost / stub state
    row_ver: Vec<u8>,
    next_ver: u8,
    walk_bits: [[[u8; 2]; NVER]; NLS],
    flush_tab: [[[bool; 2]; NVER]; NLS],
    eos_tab: [[[bool; 2]; NVER]; NLS],
    start_filter: u8,
    walks: usize,
}

impl MockPS {
    fn key(&self) -> (usize, usize, usize) {
        let top = self.lexer_stack[self.lexer_stack.len() - 1];
        let ls = top.lexer_state.as_usize() - 2;
        let ver = self.row_ver[top.row_idx as usize] as usize;
        (ls, ver, self.has_pending_lexeme_bytes() as usize)
    }
    fn lexer_mut(&mut self) -> &mut MockLexer {
        &mut self.lexer
    }
    fn lexer(&self) -> &MockLexer {
        &self.lexer
    }
    fn lexer_spec(&self) -> &MockLexSpec {
        &self.spec
    }
    fn run_speculative<T>(&mut self, _lbl: &str, f: impl FnOnce(&mut Self) -> T) -> T {
        f(self)
    }
    fn flush_lexer(&mut self) -> bool {
        let (a, b, c) = self.key();
        self.flush_tab[a][b][c]
    }
    fn token_range_lexemes(&self) -> [&MockSpec; 0] {
        []
    }
    fn lexer_allows_eos(&mut self) -> bool {
        let (a, b, c) = self.key();
        self.eos_tab[a][b][c]
    }
    // definitive progress by one byte: the lexer moves on inside the current lexeme (same row) or a lexeme ends and the next
    // Earley row is opened; a row opened now has content no earlier row at that index is known to share
    fn push_byte(&mut self, new_row: bool, ls: u32, b: u8) {
        let top = self.lexer_stack[self.lexer_stack.len() - 1];
        let row_idx = if new_row { top.row_idx + 1 } else { top.row_idx };
        if new_row {
            self.row_ver.push(self.next_ver);
            self.next_ver += 1;
            self.row_infos.push(0);
        }
        self.lexer_stack.push(LexerState { row_idx, lexer_state: StateID::new(ls + 2), byte: Some(b) });
        self.bytes.push(b);
        self.byte_to_token_idx.push(self.token_idx as u32);
        self.rows_valid_end = row_idx as usize + 1;
    }
}

struct MockP {
    state: MockPS,
}

include!("verif_pcache_fns.rs");

fn fresh_state() -> MockPS {
    let mut lexer_stack = Vec::with_capacity(6);
    let ls0: u32 = kani::any();
    kani::assume((ls0 as usize) < NLS);
    lexer_stack.push(LexerState { row_idx: 0, lexer_state: StateID::new(ls0 + 2), byte: None });
    let mut row_ver = Vec::with_capacity(6);
    row_ver.push(0);
    let mut row_infos = Vec::with_capacity(6);
    row_infos.push(0);
    MockPS {
        parser_error: None,
        byte_to_token_idx: Vec::with_capacity(6),
        bytes: Vec::with_capacity(6),
        lexer_stack,
        lexer_stack_top_eos: false,
        row_infos,
        token_idx: 0,
        last_force_bytes_len: 0,
        rows_valid_end: 1,
        scratch: MockScratch { definitive: true },
        backtrack_byte_count: 0,
        bias_cache: None,
        stats: ParserStats::default(),
        perf_counters: MockPerf { compute_bias: MockCounter },
        limits: MockLimits { step_lexer_fuel: 1000, max_lexer_states: 1000, step_max_items: 1000 },
        max_all_items: usize::MAX,
        special_token_marker_token: INVALID_TOKEN,
        lexer: MockLexer { dfa: MockDfa },
        spec: MockLexSpec,
        row_ver,
        next_ver: 1,
        walk_bits: kani::any(),
        flush_tab: kani::any(),
        eos_tab: kani::any(),
        start_filter: kani::any(),
        walks: 0,
    }
}

fn any_push(st: &mut MockPS) {
    let new_row: bool = kani::any();
    let ls: u32 = kani::any();
    kani::assume((ls as usize) < NLS);
    st.push_byte(new_row, ls, kani::any());
}

// op codes: 0 nothing, 1 push a byte, 2 rollback(1), 3 rollback(2)   (concrete per harness instance: vector LENGTHS stay concrete,
// contents, lexer states, row decisions and every stub answer are symbolic)
fn do_op(p: &mut MockP, op: usize) -> bool {
    if op == 1 {
        any_push(&mut p.state);
        false
    } else if op >= 2 {
        let r = p.state.rollback(op - 1);
        assert!(r.is_ok());
        // ghost: rows above the new top are gone
        let nr = p.state.num_rows();
        p.state.row_ver.truncate(nr);
        true
    } else {
        false
    }
}

fn same_mask(a: &SimpleVob, b: &SimpleVob) -> bool {
    let mut t = 0;
    while t < VOC {
        if a.is_allowed(t as u32) != b.is_allowed(t as u32) {
            return false;
        }
        t += 1;
    }
    true
}

// history: PRE pushes, mask, two operations (OP1, OP2), mask — then the same mask again after invalidating the cache
fn p11_body<const PRE: usize, const OP1: usize, const OP2: usize>() {
    let mut p = MockP { state: fresh_state() };
    let eos: TokenId = kani::any();
    kani::assume(eos < VOC as u32 || eos == INVALID_TOKEN);
    let comp = MockComputer { t: MockTrie { eos } };
    let mut i = 0;
    while i < PRE {
        any_push(&mut p.state);
        i += 1;
    }
    let m0 = p.state.compute_bias(&comp, &[]);
    let rb1 = do_op(&mut p, OP1);
    let rb2 = do_op(&mut p, OP2);
    let w0 = p.state.walks;
    let m1 = p.state.compute_bias(&comp, &[]);
    let served_from_cache = p.state.walks == w0;
    p.invalidate_bias_cache();
    let m2 = p.state.compute_bias(&comp, &[]);
    assert!(p.state.walks == w0 + if served_from_cache { 1 } else { 2 });
    assert!(same_mask(&m1, &m2));
    let _ = (rb1, rb2);
    // same state: served from the cache; after progress that opens a new row: never
    kani::cover!(OP1 + OP2 > 0 || served_from_cache);
    let vc_10 = OP1 + OP2 == 0 || (OP2 != 1 && (OP1 != 1 || OP2 != 0)) || !served_from_cache;
    kani::cover!(vc_10);
    kani::cover!(PRE == 0 || OP1 != 1 || OP2 != 0 || served_from_cache);
    // no drop glue under the solver (nothing is asserted about deallocation)
    std::mem::forget((m0, m1, m2, p, comp));
}

inst!(p11_cache_pre1_none, p11_body, 6, 1, 0, 0);
inst!(p11_cache_pre0_push, p11_body, 6, 0, 1, 0);
inst!(p11_cache_pre1_push_push, p11_body, 6, 1, 1, 1);
inst!(p11_cache_pre1_rb1_push, p11_body, 6, 1, 2, 1);
inst!(p11_cache_pre2_rb1_push, p11_body, 6, 2, 2, 1);
inst!(p11_cache_pre2_rb2_push, p11_body, 6, 2, 3, 1);
inst!(p11_cache_pre1_push_rb1, p11_body, 6, 1, 1, 2);
inst!(p11_cache_pre1_push_rb2, p11_body, 6, 1, 1, 3);
inst!(p11_cache_pre2_rb1_rb1, p11_body, 6, 2, 2, 2);
inst!(p11_cache_pre1_rb1_none, p11_body, 6, 1, 2, 0);

// a mask asked for with a non-empty start (pending forced bytes as a mandatory token prefix) is neither served from the cache
// nor stored in it
#[kani::proof]
#[kani::unwind(6)]
fn p11_start_bypasses_cache() {
    let mut p = MockP { state: fresh_state() };
    let comp = MockComputer { t: MockTrie { eos: INVALID_TOKEN } };
    any_push(&mut p.state);
    let first_plain: bool = kani::any();
    if first_plain {
        let _ = p.state.compute_bias(&comp, &[]);
    }
    let w0 = p.state.walks;
    let had = p.state.bias_cache.is_some();
    let m1 = p.state.compute_bias(&comp, &[b'x']);
    assert!(p.state.walks == w0 + 1);
    assert!(p.state.bias_cache.is_some() == had);
    // and the plain mask afterwards is the plain mask
    let m2 = p.state.compute_bias(&comp, &[]);
    p.invalidate_bias_cache();
    let m3 = p.state.compute_bias(&comp, &[]);
    assert!(same_mask(&m2, &m3));
    kani::cover!(first_plain);
    kani::cover!(!first_plain);
    std::mem::forget((m1, m2, m3, p, comp));
}

#[kani::proof]
#[kani::unwind(6)]
fn p11_witness_must_fail() {
    let mut p = MockP { state: fresh_state() };
    let comp = MockComputer { t: MockTrie { eos: INVALID_TOKEN } };
    let m0 = p.state.compute_bias(&comp, &[]);
    any_push(&mut p.state);
    let m1 = p.state.compute_bias(&comp, &[]);
    // wrong on purpose: claims the mask never changes
    assert!(same_mask(&m0, &m1));
}
