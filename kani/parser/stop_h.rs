// Kani harness — child module of llguidance::stop_controller. valid_utf8_len: the one kernel of C18 a solver can reach (listed under C20).
use super::*;

fn is_cont(b: u8) -> bool {
    b & 0b1100_0000 == 0b1000_0000
}

fn lead_len(b: u8) -> usize {
    if b & 0x80 == 0 {
        1
    } else if b & 0xE0 == 0xC0 {
        2
    } else if b & 0xF0 == 0xE0 {
        3
    } else if b & 0xF8 == 0xF0 {
        4
    } else {
        1
    }
}

#[kani::proof]
#[kani::unwind(8)]
fn c20_valid_utf8_len() {
    // arbitrary bytes (also invalid UTF-8): no panic, result within the buffer, and the result never ends inside a
    // multi-byte character whose remaining bytes are absent
    let data: [u8; 6] = kani::any();
    let n: usize = kani::any();
    kani::assume(n <= 6);
    let d = &data[..n];
    let r = valid_utf8_len(d);
    assert!(r <= n);
    if n == 0 {
        assert!(r == 0);
    }
    if r == n && n > 0 {
        // everything returned: the last character must not be a truncated multi-byte sequence
        let mut i = n - 1;
        let mut k = 0;
        while i > 0 && is_cont(d[i]) && k < 6 {
            i -= 1;
            k += 1;
        }
        assert!(i + lead_len(d[i]) <= n);
    }
    kani::cover!(n == 5 && r == 3);
    kani::cover!(n == 4 && r == 4 && d[1] & 0xF0 == 0xE0);
    kani::cover!(n == 6 && r == 5);
}

#[kani::proof]
#[kani::unwind(8)]
fn c20_valid_utf8_len_truncated_tail() {
    // text ending in an incomplete character (lead byte + fewer continuation bytes than announced): exactly that tail is withheld
    let data: [u8; 6] = kani::any();
    let n: usize = kani::any();
    let s: usize = kani::any();
    kani::assume(n <= 6 && s < n);
    kani::assume(!is_cont(data[s]) && lead_len(data[s]) > n - s);
    let mut k = s + 1;
    while k < n {
        kani::assume(is_cont(data[k]));
        k += 1;
    }
    assert!(valid_utf8_len(&data[..n]) == s);
    kani::cover!(n == 6 && s == 3 && lead_len(data[3]) == 4);
    kani::cover!(s == 0 && n == 1);
}

#[kani::proof]
#[kani::unwind(8)]
fn c20_valid_utf8_len_complete_text() {
    // a buffer that ends with a complete 1..4 byte character is returned whole
    let data: [u8; 6] = kani::any();
    let n: usize = kani::any();
    let l: usize = kani::any();
    kani::assume(n <= 6 && l >= 1 && l <= 4 && l <= n);
    let s = n - l;
    kani::assume(lead_len(data[s]) == l && !is_cont(data[s]));
    let mut k = s + 1;
    while k < n {
        kani::assume(is_cont(data[k]));
        k += 1;
    }
    assert!(valid_utf8_len(&data[..n]) == n);
    kani::cover!(l == 4 && n == 6);
}
