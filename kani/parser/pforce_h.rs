// Kani harness — child module of llguidance::earley::parser (E1c: function slices). P12f: the forced-bytes memo of ParserState.
// ParserState::{needs_force_bytes, force_bytes, with_items_limit, rollback, has_pending_lexeme_bytes, lexer_state, num_rows,
// assert_definitive, assert_definitive_inner, check_lexer_bytes_invariant} are cut VERBATIM from /repo's current parser.rs and
// re-hosted in a mock parser state.  Stubs: forced_byte() answers as a symbolic FUNCTION of the identity of the definitive byte
// history (a ghost version per stack entry: an entry pushed later gets a fresh one even at the same depth);
// try_push_byte_definitive pushes the byte (arbitrary next lexer state, same row or next row).  Decided: after ANY history of
// pushes, force_bytes() calls and rollbacks, when force_bytes() returns nothing is forced any more — i.e. its "already done at
// this length" memo never skips a state it has not examined.
use super::*;
// explicit imports: the harness must not depend on which names the real module happens to import
#[allow(unused_imports)]
use crate::earley::ParserStats;
#[allow(unused_imports)]
use ::toktrie::{TokTrie, TokenId};

#[derive(Debug, Clone, Copy, PartialEq)]
pub struct MockErr;
type Result<T> = core::result::Result<T, MockErr>;

macro_rules! ensure {
    ($c:expr, $($t:tt)*) => {
        if !($c) {
            return Err(MockErr);
        }
    };
}
macro_rules! debug {
    ($($t:tt)*) => {};
}
macro_rules! trace {
    ($($t:tt)*) => {};
}
macro_rules! format {
    ($($t:tt)*) => {
        String::from("X[0]")
    };
}

#[derive(Clone)]
struct MockLimits {
    step_max_items: usize,
}
struct MockLexSpec;
impl MockLexSpec {
    fn can_rollback(&self) -> bool {
        true
    }
}
struct MockScratch {
    definitive: bool,
}
struct MockSpec {
    token_ranges: [std::ops::RangeInclusive<TokenId>; 0],
}

const NV: usize = 5;

struct MockPS {
    parser_error: Option<String>,
    byte_to_token_idx: Vec<u32>,
    bytes: Vec<u8>,
    lexer_stack: Vec<LexerState>,
    lexer_stack_top_eos: bool,
    row_infos: Vec<u8>,
    token_idx: usize,
    last_force_bytes_len: usize,
    rows_valid_end: usize,
    scratch: MockScratch,
    backtrack_byte_count: usize,
    bias_cache: Option<BiasCache>,
    stats: ParserStats,
    limits: MockLimits,
    max_all_items: usize,
    spec: MockLexSpec,
    // ghost / stub state
    hist_ver: Vec<u8>,
    next_ver: u8,
    forced_tab: [Option<u8>; NV],
    last_push_forced: bool,
    probes: usize,
}

impl MockPS {
    fn lexer_spec(&self) -> &MockLexSpec {
        &self.spec
    }
    fn key(&self) -> usize {
        self.hist_ver[self.hist_ver.len() - 1] as usize
    }
    fn forced_byte(&mut self) -> Option<u8> {
        self.probes += 1;
        let k = self.key();
        // forced chains are one byte long here (keeps the loop of force_bytes at two iterations under the solver)
        if self.last_push_forced {
            return None;
        }
        if k < NV {
            self.forced_tab[k]
        } else {
            None
        }
    }
    fn token_range_lexemes(&self) -> [&MockSpec; 0] {
        []
    }
    fn push_byte(&mut self, new_row: bool, ls: u32, b: u8) {
        let top = self.lexer_stack[self.lexer_stack.len() - 1];
        let row_idx = if new_row { top.row_idx + 1 } else { top.row_idx };
        if new_row {
            self.row_infos.push(0);
        }
        self.lexer_stack.push(LexerState { row_idx, lexer_state: StateID::new(ls + 2), byte: Some(b) });
        self.hist_ver.push(self.next_ver);
        self.next_ver += 1;
        self.bytes.push(b);
        self.rows_valid_end = row_idx as usize + 1;
    }
    fn try_push_byte_definitive(&mut self, byte: Option<u8>) -> (bool, usize) {
        let new_row: bool = kani::any();
        let ls: u32 = kani::any();
        kani::assume(ls < 3);
        self.push_byte(new_row, ls, byte.unwrap());
        self.last_push_forced = true;
        (true, 0)
    }
    // a committed token byte (tokens cover their bytes)
    fn commit_byte(&mut self) {
        let new_row: bool = kani::any();
        let ls: u32 = kani::any();
        kani::assume(ls < 3);
        // bytes forced earlier are covered first (apply_forced), then the new byte
        while self.byte_to_token_idx.len() < self.bytes.len() {
            self.byte_to_token_idx.push(self.token_idx as u32);
        }
        self.push_byte(new_row, ls, kani::any());
        self.last_push_forced = false;
        self.byte_to_token_idx.push(self.token_idx as u32);
    }
}

include!("verif_pforce_fns.rs");

fn fresh_state() -> MockPS {
    let mut lexer_stack = Vec::with_capacity(6);
    lexer_stack.push(LexerState { row_idx: 0, lexer_state: StateID::new(2), byte: None });
    let mut hist_ver = Vec::with_capacity(6);
    hist_ver.push(0);
    let mut row_infos = Vec::with_capacity(6);
    row_infos.push(0);
    let forced_tab: [Option<u8>; NV] = kani::any();
    // the marker byte starts a special token: that branch of force_bytes needs live token-range lexemes (none here)
    let mut i = 0;
    while i < NV {
        kani::assume(forced_tab[i] != Some(TokTrie::SPECIAL_TOKEN_MARKER));
        i += 1;
    }
    MockPS {
        parser_error: None,
        byte_to_token_idx: Vec::with_capacity(6),
        bytes: Vec::with_capacity(6),
        lexer_stack,
        lexer_stack_top_eos: false,
        row_infos,
        token_idx: 0,
        last_force_bytes_len: usize::MAX,
        rows_valid_end: 1,
        scratch: MockScratch { definitive: true },
        backtrack_byte_count: 0,
        bias_cache: None,
        stats: ParserStats::default(),
        limits: MockLimits { step_max_items: 1000 },
        max_all_items: usize::MAX,
        spec: MockLexSpec,
        hist_ver,
        next_ver: 1,
        forced_tab,
        last_push_forced: false,
        probes: 0,
    }
}

// op codes: 1 commit a byte, 2 force_bytes(), 3 rollback(1), 4 rollback(2)
fn do_op(st: &mut MockPS, op: usize) {
    if op == 1 {
        st.commit_byte();
    } else if op == 2 {
        st.force_bytes();
        // when it returns, nothing is forced
        assert!(st.forced_byte().is_none());
    } else if op >= 3 {
        let n = op - 2;
        // TokenParser rolls back whole tokens: bytes covered by tokens; forced-but-uncovered bytes go first
        let uncovered = st.bytes.len() - st.byte_to_token_idx.len();
        let r = st.rollback(n);
        assert!(r.is_ok());
        let _ = uncovered;
        let l = st.lexer_stack.len();
        st.hist_ver.truncate(l);
        st.last_push_forced = false;
    }
}

fn p12f_body<const O1: usize, const O2: usize, const O3: usize, const O4: usize, const O5: usize>() {
    let mut st = fresh_state();
    // every forced chain ends: a history identity beyond the table forces nothing, and at most two bytes in a row are forced
    do_op(&mut st, O1);
    do_op(&mut st, O2);
    do_op(&mut st, O3);
    do_op(&mut st, O4);
    do_op(&mut st, O5);
    kani::cover!(st.probes >= 2);
    kani::cover!(O5 != 2 || st.bytes.len() > st.byte_to_token_idx.len());
    std::mem::forget(st);
}

// commit, force, rollback, commit, force  (the speculative-decoding sequence: reject a draft token, commit another one)
inst!(p12f_c_f_rb1_c_f, p12f_body, 8, 1, 2, 3, 1, 2);
inst!(p12f_c_c_f_rb2_c, p12f_body, 8, 1, 1, 2, 4, 1);
inst!(p12f_c_f_rb1_f_none, p12f_body, 8, 1, 2, 3, 2, 0);

#[kani::proof]
#[kani::unwind(8)]
fn p12f_witness_must_fail() {
    let mut st = fresh_state();
    st.commit_byte();
    st.force_bytes();
    // wrong on purpose: claims force_bytes never forces anything
    assert!(st.bytes.len() == 1);
    std::mem::forget(st);
}
