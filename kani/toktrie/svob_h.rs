// K16.1 — bit-vector algebra of toktrie::svob::SimpleVob, decided by Kani/CBMC.
// This file is compiled as a *child module* of `toktrie::svob` (overlay, cfg(kani)),
// so it sees the private fields `data` and `size`.
//
// Oracle: the set-of-integers meaning, read off the raw words the harness itself
// made symbolic (`bit(words, i)`), never through the method under test.
//
// Bounds: W = number of 32-bit words, one harness instance per W in 1..=3 (W=0 for a few);
// logical `size` symbolic over every value compatible with W words, both for
// `alloc(size)` (ceil(size/32) == W) and for `alloc_with_capacity(size, size+1)`
// (ceil((size+1)/32) == W): size in [(W-1)*32, W*32].
use super::*;

fn valid_bits_mask(size: usize, k: usize) -> u32 {
    // mask of bits of word k that are < size
    let lo = k * 32;
    if size <= lo {
        0
    } else if size - lo >= 32 {
        !0u32
    } else {
        (1u32 << (size - lo)) - 1
    }
}

fn bit(words: &[u32], i: usize) -> bool {
    (words[i / 32] >> (i % 32)) & 1 != 0
}

/// arbitrary vector with W words, logical size in [(W-1)*32, W*32], invariant: no bit >= size
fn any_vob<const W: usize>() -> (SimpleVob, [u32; W]) {
    let size: usize = kani::any();
    if W == 0 {
        kani::assume(size == 0);
    } else {
        kani::assume(size >= (W - 1) * 32 && size <= W * 32);
    }
    let words: [u32; W] = kani::any();
    let mut k = 0;
    while k < W {
        kani::assume(words[k] & !valid_bits_mask(size, k) == 0);
        k += 1;
    }
    (
        SimpleVob {
            data: words.to_vec(),
            size,
        },
        words,
    )
}

/// same but with the logical size forced equal to `size`
fn any_vob_sized<const W: usize>(size: usize) -> (SimpleVob, [u32; W]) {
    let words: [u32; W] = kani::any();
    let mut k = 0;
    while k < W {
        kani::assume(words[k] & !valid_bits_mask(size, k) == 0);
        k += 1;
    }
    (
        SimpleVob {
            data: words.to_vec(),
            size,
        },
        words,
    )
}

fn check_invariant<const W: usize>(v: &SimpleVob) {
    assert!(v.data.len() == W);
    let mut k = 0;
    while k < W {
        assert!(v.data[k] & !valid_bits_mask(v.size, k) == 0);
        k += 1;
    }
}

fn any_index<const W: usize>() -> usize {
    let i: usize = kani::any();
    kani::assume(i < W * 32);
    i
}

// ---------------------------------------------------------------- set / get / allow / disallow
fn h_set<const W: usize>() {
    let (mut v, pre) = any_vob::<W>();
    let idx = any_index::<W>();
    let val: bool = kani::any();
    let i = any_index::<W>();
    assert!(v.get(i) == bit(&pre, i));
    assert!(v.is_allowed(i as TokenId) == bit(&pre, i));
    assert!(v[i] == bit(&pre, i));
    v.set(idx, val);
    assert!(v.get(i) == if i == idx { val } else { bit(&pre, i) });
    assert!(v.size == v.len() && v.data.len() == W);
    kani::cover!(idx / 32 == W - 1 && val);
    kani::cover!(i != idx && bit(&pre, i));
}

fn h_allow_disallow<const W: usize>() {
    let (mut v, pre) = any_vob::<W>();
    let t = any_index::<W>();
    let i = any_index::<W>();
    let which: bool = kani::any();
    if which {
        v.allow_token(t as TokenId);
    } else {
        v.disallow_token(t as TokenId);
    }
    assert!(v.get(i) == if i == t { which } else { bit(&pre, i) });
    kani::cover!(which && t == W * 32 - 1);
    kani::cover!(!which && bit(&pre, t));
}

// ---------------------------------------------------------------- allow_token_unchecked on alloc_token_set shape
fn h_allow_unchecked<const W: usize>() {
    // alloc_with_capacity(size, size + 1): W == ceil((size+1)/32)
    let size: usize = kani::any();
    kani::assume(size >= (W - 1) * 32 && size < W * 32);
    let (mut v, pre) = any_vob_sized::<W>(size);
    let tok: u32 = kani::any();
    kani::assume(tok as usize <= size); // == size is the stand-in for NO_TOKEN
    unsafe { v.allow_token_unchecked(tok) };
    let i = any_index::<W>();
    assert!(v.get(i) == (i == tok as usize || bit(&pre, i)));
    kani::cover!(tok as usize == size && size % 32 == 31);
    kani::cover!(tok as usize == size && size % 32 == 0);
}

// ---------------------------------------------------------------- allow_range
fn h_allow_range<const W: usize>() {
    let (mut v, pre) = any_vob::<W>();
    let a: u32 = kani::any();
    let b: u32 = kani::any();
    kani::assume((b as usize) < v.size);
    kani::assume(a as usize <= W * 32 + 5);
    v.allow_range(a..=b);
    let i = any_index::<W>();
    let in_range = a as usize <= i && i <= b as usize;
    assert!(v.get(i) == (bit(&pre, i) || in_range));
    check_invariant::<W>(&v);
    kani::cover!(a > b);
    kani::cover!(a <= b && a / 32 == b / 32);
    kani::cover!(W < 2 || a / 32 + 1 == b / 32);
    kani::cover!(W < 3 || a / 32 + 2 == b / 32);
    kani::cover!(a <= b && b as usize == v.size - 1 && b % 32 == 31);
    kani::cover!(a <= b && a % 32 == 0 && b % 32 == 0);
}

// ---------------------------------------------------------------- negated / set_all
fn h_negated<const W: usize>() {
    let (v, pre) = any_vob::<W>();
    let n = v.negated();
    let i = any_index::<W>();
    assert!(n.size == v.size);
    assert!(n.data.len() == W);
    assert!(n.get(i) == (i < v.size && !bit(&pre, i)));
    check_invariant::<W>(&n);
    kani::cover!(v.size % 32 != 0);
    kani::cover!(v.size % 32 == 0);
    kani::cover!(v.size == (W - 1) * 32);
}

fn h_set_all<const W: usize>() {
    let (mut v, _pre) = any_vob::<W>();
    let val: bool = kani::any();
    v.set_all(val);
    let i = any_index::<W>();
    assert!(v.get(i) == (val && i < v.size));
    check_invariant::<W>(&v);
    kani::cover!(val && v.size % 32 != 0);
    kani::cover!(val && v.size == (W - 1) * 32);
}

// ---------------------------------------------------------------- binary ops of equal size
fn h_binops<const W: usize>() {
    let (a0, pa) = any_vob::<W>();
    let (b, pb) = any_vob_sized::<W>(a0.size);
    let (c, pc) = any_vob_sized::<W>(a0.size);
    let i = any_index::<W>();
    let op: u8 = kani::any();
    kani::assume(op < 4);
    let mut a = a0.clone();
    let expect = match op {
        0 => {
            a.or(&b);
            bit(&pa, i) || bit(&pb, i)
        }
        1 => {
            a.and(&b);
            bit(&pa, i) && bit(&pb, i)
        }
        2 => {
            a.sub(&b);
            bit(&pa, i) && !bit(&pb, i)
        }
        _ => {
            a.or_minus(&b, &c);
            bit(&pa, i) || (bit(&pb, i) && !bit(&pc, i))
        }
    };
    assert!(a.get(i) == expect);
    assert!(a.size == a0.size);
    check_invariant::<W>(&a);
    kani::cover!(op == 3 && expect && !bit(&pa, i));
    kani::cover!(op == 2 && !expect && bit(&pa, i));
    kani::cover!(op == 0 && i / 32 == W - 1 && expect && !bit(&pa, i));
}

/// `or` with a shorter operand (the slicer or-s trimmed vectors into a full one)
fn h_or_shorter<const W: usize, const W2: usize>() {
    let (mut a, pa) = any_vob::<W>();
    let words2: [u32; W2] = kani::any();
    let b = SimpleVob {
        data: words2.to_vec(),
        size: W2 * 32,
    };
    kani::assume(a.size >= b.size);
    a.or(&b);
    let i = any_index::<W>();
    let eb = i < W2 * 32 && bit(&words2, i % (W2 * 32 + (W2 == 0) as usize));
    assert!(a.get(i) == (bit(&pa, i) || eb));
    assert!(a.data.len() == W);
    kani::cover!(i >= W2 * 32 && bit(&pa, i));
    kani::cover!(W2 == 0 || (i < W2 * 32 && eb && !bit(&pa, i)));
}

// ---------------------------------------------------------------- predicates
fn h_preds<const W: usize>() {
    let (a, pa) = any_vob::<W>();
    let (b, pb) = any_vob_sized::<W>(a.size);
    let i = any_index::<W>();
    // is_zero / and_is_zero: a witness bit refutes them; a `true` verdict forbids any witness
    if a.is_zero() {
        assert!(!bit(&pa, i));
    }
    if bit(&pa, i) {
        assert!(!a.is_zero());
    }
    if a.and_is_zero(&b) {
        assert!(!(bit(&pa, i) && bit(&pb, i)));
    }
    if bit(&pa, i) && bit(&pb, i) {
        assert!(!a.and_is_zero(&b));
    }
    // exact characterisation through words (W <= 3)
    let mut any_a = false;
    let mut any_ab = false;
    let mut k = 0;
    while k < W {
        any_a |= pa[k] != 0;
        any_ab |= pa[k] & pb[k] != 0;
        k += 1;
    }
    assert!(a.is_zero() == !any_a);
    assert!(a.and_is_zero(&b) == !any_ab);
    let mut same = true;
    let mut k = 0;
    while k < W {
        same &= pa[k] == pb[k];
        k += 1;
    }
    assert!((a == b) == same);
    kani::cover!(a.is_zero());
    kani::cover!(!a.is_zero() && !b.is_zero() && a.and_is_zero(&b));
}

fn h_first_bit<const W: usize>() {
    let (a, pa) = any_vob::<W>();
    let (b, pb) = any_vob_sized::<W>(a.size);
    let j = any_index::<W>();
    match a.first_bit_set() {
        Some(r) => {
            assert!(r < W * 32 && bit(&pa, r));
            if j < r {
                assert!(!bit(&pa, j));
            }
        }
        None => assert!(!bit(&pa, j)),
    }
    match a.first_bit_set_here_and_in(&b) {
        Some(r) => {
            assert!(r < W * 32 && bit(&pa, r) && bit(&pb, r));
            if j < r {
                assert!(!(bit(&pa, j) && bit(&pb, j)));
            }
        }
        None => assert!(!(bit(&pa, j) && bit(&pb, j))),
    }
    kani::cover!(a.first_bit_set() == Some(W * 32 - 1));
    kani::cover!(a.first_bit_set().is_some() && a.first_bit_set_here_and_in(&b).is_none());
}

fn h_num_set<const W: usize>() {
    let (a, pa) = any_vob::<W>();
    let mut c = 0usize;
    let mut i = 0;
    while i < W * 32 {
        if bit(&pa, i) {
            c += 1;
        }
        i += 1;
    }
    assert!(a.num_set() == c);
    assert!(c <= a.size);
    kani::cover!(c == a.size && c > 32 * (W - 1));
}

// ---------------------------------------------------------------- iteration
/// one step of SimpleVobIter from an arbitrary iterator position
fn h_iter_step<const W: usize>() {
    let (a, pa) = any_vob::<W>();
    let s: usize = kani::any();
    kani::assume(s <= W * 32);
    let mut it = SimpleVobIter { vob: &a, idx: s };
    let j = any_index::<W>();
    match it.next() {
        Some(r) => {
            let r = r as usize;
            assert!(r >= s && r < W * 32 && bit(&pa, r));
            assert!(it.idx == r + 1);
            if j >= s && j < r {
                assert!(!bit(&pa, j));
            }
        }
        None => {
            if j >= s {
                assert!(!bit(&pa, j));
            }
        }
    }
    kani::cover!(W < 2 || (s % 32 != 0 && s / 32 + 1 < W));
    kani::cover!(s == W * 32);
}

/// iter_set_entries / iter_unset_entries / iter_entries call back exactly once per index < size
fn h_iter_entries<const W: usize, const SIZE: usize>() {
    // logical size concrete per instance: with a symbolic size the slice loop bound is symbolic and CBMC unrolls
    // 34 x 64 callback sites (287 s at W=2); the word contents stay symbolic
    let (a, pa) = any_vob_sized::<W>(SIZE);
    let t = any_index::<W>();
    let mut set_calls = 0u32;
    let mut bad = false;
    a.iter_set_entries(|x| {
        if x == t {
            set_calls += 1;
        }
        if x >= a.size {
            bad = true;
        }
    });
    assert!(!bad);
    assert!(set_calls == (t < a.size && bit(&pa, t)) as u32);
    let vc_12 = t >= (a.size / 32) * 32 && t < a.size && bit(&pa, t) || a.size % 32 == 0 && t < a.size && bit(&pa, t);
    kani::cover!(vc_12);
    kani::cover!(t >= a.size || SIZE == W * 32);
}

fn h_iter_unset<const W: usize, const SIZE: usize>() {
    // logical size concrete per instance: with a symbolic size the slice loop bound is symbolic and CBMC unrolls
    // 34 x 64 callback sites (287 s at W=2); the word contents stay symbolic
    let (a, pa) = any_vob_sized::<W>(SIZE);
    let t = any_index::<W>();
    let mut bad = false;
    let mut unset_calls = 0u32;
    a.iter_unset_entries(|x| {
        if x == t {
            unset_calls += 1;
        }
        if x >= a.size {
            bad = true;
        }
    });
    assert!(!bad);
    assert!(unset_calls == (t < a.size && !bit(&pa, t)) as u32);
    kani::cover!(t < a.size && !bit(&pa, t));
}

fn h_iter_all<const W: usize, const SIZE: usize>() {
    // logical size concrete per instance: with a symbolic size the slice loop bound is symbolic and CBMC unrolls
    // 34 x 64 callback sites (287 s at W=2); the word contents stay symbolic
    let (a, pa) = any_vob_sized::<W>(SIZE);
    let t = any_index::<W>();
    let mut bad = false;
    let mut calls = 0u32;
    let mut val = false;
    a.iter_entries(|v, x| {
        if x == t {
            calls += 1;
            val = v;
        }
        if x >= a.size {
            bad = true;
        }
    });
    assert!(!bad);
    assert!(calls == (t < a.size) as u32);
    if t < a.size {
        assert!(val == bit(&pa, t));
    }
    kani::cover!(t < a.size && val);
}

// ---------------------------------------------------------------- trim_trailing_zeros
fn h_trim<const W: usize>() {
    let (mut a, pa) = any_vob::<W>();
    a.trim_trailing_zeros();
    let mut last = 0;
    let mut k = 0;
    while k < W {
        if pa[k] != 0 {
            last = k + 1;
        }
        k += 1;
    }
    assert!(a.data.len() == last);
    if last != W {
        assert!(a.size == last * 32);
    }
    let i = any_index::<W>();
    if i < last * 32 {
        assert!(a.get(i) == bit(&pa, i));
    } else {
        assert!(!bit(&pa, i));
    }
    kani::cover!(last == 0);
    kani::cover!(W < 2 || (last > 0 && last < W));
    kani::cover!(last == W);
}

// ---------------------------------------------------------------- write_to
fn h_write_to<const W: usize>() {
    let (a, pa) = any_vob::<W>();
    let n: usize = kani::any();
    kani::assume(n <= W * 4);
    let mut buf = [0xAAu8; 12];
    a.write_to(&mut buf[..n]);
    let p: usize = kani::any();
    kani::assume(p < 12);
    if p < n {
        assert!(buf[p] == (pa[p / 4] >> (8 * (p % 4))) as u8);
    } else {
        assert!(buf[p] == 0xAA);
    }
    kani::cover!(n % 4 != 0 && n > 4 * (W - 1));
    kani::cover!(n == W * 4);
}

// ---------------------------------------------------------------- allocation family (word count fixed per instance)
fn h_alloc<const W: usize>() {
    // concrete boundary sizes (a symbolic allocation length made CBMC return ERROR statuses after 85 s)
    let sizes = [(W - 1) * 32 + 1, (W - 1) * 32 + 2, W * 32 - 1, W * 32];
    let mut k = 0;
    while k < 4 {
        let size = sizes[k];
        let z = SimpleVob::alloc(size);
        assert!(z.size == size && z.data.len() == W && z.is_zero());
        assert!(z.len() == size && !z.is_empty());
        k += 1;
    }
}

/// alloc_ones at the boundary sizes of a W-word vector (concrete sizes: a symbolic allocation length
/// followed by the clear loop exhausted CBMC's memory; set_all/negated cover the symbolic-size part)
fn h_alloc_ones<const W: usize>() {
    let sizes = [(W - 1) * 32 + 1, (W - 1) * 32 + 2, W * 32 - 1, W * 32];
    let mut k = 0;
    while k < 4 {
        let size = sizes[k];
        let o = SimpleVob::alloc_ones(size);
        let i = any_index::<W>();
        assert!(o.get(i) == (i < size));
        assert!(o.len() == size && o.num_set() == size);
        k += 1;
    }
}

fn h_alloc_cap<const W: usize>() {
    // TokTrie::alloc_token_set shape
    let size: usize = kani::any();
    kani::assume(size >= (W - 1) * 32 && size < W * 32);
    let z = SimpleVob::alloc_with_capacity(size, size + 1);
    assert!(z.size == size && z.data.len() == W && z.is_zero());
    kani::cover!(size % 32 == 31);
    kani::cover!(size % 32 == 0);
}

fn h_resize<const W: usize, const W2: usize>() {
    let (mut a, pa) = any_vob::<W>();
    kani::assume(a.size > (W - 1) * 32 || W == 0);
    let ns: usize = kani::any();
    kani::assume(ns > (W2 - 1) * 32 && ns <= W2 * 32 && ns >= a.size);
    a.resize(ns);
    assert!(a.size == ns && a.data.len() == W2);
    let i = any_index::<W2>();
    if i < W * 32 {
        assert!(a.get(i) == bit(&pa, i % (W * 32 + (W == 0) as usize)));
    } else {
        assert!(!a.get(i));
    }
    kani::cover!(W2 == W || i >= W * 32);
}

fn h_from_slice() {
    let bits: [bool; 5] = kani::any();
    let n: usize = 5;
    let v = SimpleVob::from_slice(&bits[..n]);
    let i: usize = kani::any();
    kani::assume(i < 32);
    assert!(v.len() == n);
    assert!(v.get(i) == (i < n && bits[i % 5]));
}

macro_rules! inst {
    ($name:ident, $f:ident, $unw:expr, $($g:tt)*) => {
        #[kani::proof]
        #[kani::unwind($unw)]
        fn $name() {
            $f::<$($g)*>();
        }
    };
}

inst!(k16_1_set_w1, h_set, 5, 1);
inst!(k16_1_set_w2, h_set, 5, 2);
inst!(k16_1_set_w3, h_set, 5, 3);
inst!(k16_1_allow_disallow_w1, h_allow_disallow, 5, 1);
inst!(k16_1_allow_disallow_w3, h_allow_disallow, 5, 3);
inst!(k16_1_allow_unchecked_w1, h_allow_unchecked, 5, 1);
inst!(k16_1_allow_unchecked_w2, h_allow_unchecked, 5, 2);
inst!(k16_1_allow_unchecked_w3, h_allow_unchecked, 5, 3);
inst!(k16_1_allow_range_w1, h_allow_range, 5, 1);
inst!(k16_1_allow_range_w2, h_allow_range, 5, 2);
inst!(k16_1_allow_range_w3, h_allow_range, 5, 3);
inst!(k16_1_negated_w1, h_negated, 34, 1);
inst!(k16_1_negated_w2, h_negated, 34, 2);
inst!(k16_1_negated_w3, h_negated, 34, 3);
inst!(k16_1_set_all_w1, h_set_all, 34, 1);
inst!(k16_1_set_all_w2, h_set_all, 34, 2);
inst!(k16_1_set_all_w3, h_set_all, 34, 3);
inst!(k16_1_binops_w1, h_binops, 5, 1);
inst!(k16_1_binops_w2, h_binops, 5, 2);
inst!(k16_1_binops_w3, h_binops, 5, 3);
inst!(k16_1_or_shorter_w2_0, h_or_shorter, 5, 2, 0);
inst!(k16_1_or_shorter_w2_1, h_or_shorter, 5, 2, 1);
inst!(k16_1_or_shorter_w3_1, h_or_shorter, 5, 3, 1);
inst!(k16_1_or_shorter_w3_2, h_or_shorter, 5, 3, 2);
inst!(k16_1_preds_w1, h_preds, 14, 1);
inst!(k16_1_preds_w2, h_preds, 14, 2);
inst!(k16_1_preds_w3, h_preds, 14, 3);
inst!(k16_1_first_bit_w1, h_first_bit, 5, 1);
inst!(k16_1_first_bit_w2, h_first_bit, 5, 2);
inst!(k16_1_first_bit_w3, h_first_bit, 5, 3);
inst!(k16_1_num_set_w1, h_num_set, 34, 1);
inst!(k16_1_num_set_w2, h_num_set, 66, 2);
inst!(k16_1_num_set_w3, h_num_set, 98, 3);
inst!(k16_1_iter_step_w1, h_iter_step, 5, 1);
inst!(k16_1_iter_step_w2, h_iter_step, 5, 2);
inst!(k16_1_iter_step_w3, h_iter_step, 5, 3);
inst!(k16_1_iter_entries_w1_32, h_iter_entries, 34, 1, 32);
inst!(k16_1_iter_entries_w1_31, h_iter_entries, 34, 1, 31);
inst!(k16_1_iter_entries_w1_1, h_iter_entries, 34, 1, 1);
inst!(k16_1_iter_entries_w2_33, h_iter_entries, 34, 2, 33);
inst!(k16_1_iter_entries_w2_63, h_iter_entries, 34, 2, 63);
inst!(k16_1_iter_entries_w2_64, h_iter_entries, 34, 2, 64);
inst!(k16_1_iter_entries_w3_65, h_iter_entries, 34, 3, 65);
inst!(k16_1_iter_entries_w3_96, h_iter_entries, 34, 3, 96);
inst!(k16_1_iter_entries_w3_95, h_iter_entries, 34, 3, 95);
inst!(k16_1_iter_unset_w1_31, h_iter_unset, 34, 1, 31);
inst!(k16_1_iter_all_w1_31, h_iter_all, 34, 1, 31);
inst!(k16_1_iter_unset_w2_64, h_iter_unset, 34, 2, 64);
inst!(k16_1_iter_all_w2_64, h_iter_all, 34, 2, 64);
inst!(k16_1_iter_unset_w2_40, h_iter_unset, 34, 2, 40);
inst!(k16_1_iter_all_w2_40, h_iter_all, 34, 2, 40);
inst!(k16_1_iter_unset_w3_95, h_iter_unset, 34, 3, 95);
inst!(k16_1_iter_all_w3_95, h_iter_all, 34, 3, 95);
inst!(k16_1_trim_w1, h_trim, 5, 1);
inst!(k16_1_trim_w2, h_trim, 5, 2);
inst!(k16_1_trim_w3, h_trim, 5, 3);
inst!(k16_1_write_to_w1, h_write_to, 6, 1);
inst!(k16_1_write_to_w2, h_write_to, 6, 2);
inst!(k16_1_write_to_w3, h_write_to, 6, 3);
inst!(k16_1_alloc_w1, h_alloc, 34, 1);
inst!(k16_1_alloc_w2, h_alloc, 34, 2);
inst!(k16_1_alloc_w3, h_alloc, 34, 3);
inst!(k16_1_alloc_ones_w1, h_alloc_ones, 34, 1);
inst!(k16_1_alloc_ones_w2, h_alloc_ones, 34, 2);
inst!(k16_1_alloc_cap_w1, h_alloc_cap, 5, 1);
inst!(k16_1_alloc_cap_w2, h_alloc_cap, 5, 2);
inst!(k16_1_alloc_cap_w3, h_alloc_cap, 5, 3);
inst!(k16_1_resize_w1_2, h_resize, 5, 1, 2);
inst!(k16_1_resize_w2_2, h_resize, 5, 2, 2);
inst!(k16_1_resize_w2_3, h_resize, 5, 2, 3);
inst!(k16_1_resize_w1_3, h_resize, 5, 1, 3);

#[kani::proof]
#[kani::unwind(7)]
fn k16_1_from_slice() {
    h_from_slice();
}

/// Reachability witness (vacuity guard of the whole family): this harness MUST fail.
#[kani::proof]
#[kani::unwind(5)]
fn k16_1_witness_must_fail() {
    let (mut v, pre) = any_vob::<2>();
    let a: u32 = kani::any();
    let b: u32 = kani::any();
    kani::assume((b as usize) < v.size);
    v.allow_range(a..=b);
    let i = any_index::<2>();
    // wrong oracle on purpose: forgets the range
    assert!(v.get(i) == bit(&pre, i));
}
