// K16.2–K16.6, C02, K13.1 — Kani harnesses over toktrie::toktree (child module: sees private items).
//
// The trie tables are constants produced on this run by the REAL builder (TokTrie::from / filter,
// executed natively on the overlay copy of /repo) — see verif_tables.rs (generated).  The oracle
// never reads the trie: it uses the generator's own word list (W_*), so a table corrupted by a changed
// builder or a walk that decodes it differently cannot agree with itself.
use super::*;
use crate::tokenv::{ApproximateTokEnv, TokenizerEnv};

include!("verif_tables.rs");

pub const MAXD: usize = 10;

/// Byte-level acceptor = symbolic transition table over alphabet classes. State 0 is initial,
/// an entry >= S rejects. A function of the byte stack only (what C02's second sentence assumes).
pub struct TabRec<const S: usize, const C: usize> {
    next: [[u8; C]; S],
    alpha: [u8; C],
    stack: [u8; MAXD + 2],
    depth: usize,
    started: u32,
    finished: u32,
    finished_depth: usize,
    max_depth: usize,
}

impl<const S: usize, const C: usize> TabRec<S, C> {
    fn any(alpha: [u8; C]) -> Self {
        let next: [[u8; C]; S] = kani::any();
        let mut s = 0;
        while s < S {
            let mut c = 0;
            while c < C {
                kani::assume(next[s][c] as usize <= S);
                c += 1;
            }
            s += 1;
        }
        TabRec {
            next,
            alpha,
            stack: [0; MAXD + 2],
            depth: 0,
            started: 0,
            finished: 0,
            finished_depth: 0,
            max_depth: 0,
        }
    }

    fn class_of(&self, b: u8) -> usize {
        let mut c = C;
        let mut k = 0;
        while k < C {
            if self.alpha[k] == b {
                c = k;
            }
            k += 1;
        }
        c
    }

    /// oracle: does the table accept `bytes` from the initial state, byte by byte?
    fn accepts(&self, bytes: &[u8]) -> bool {
        let mut s = 0usize;
        let mut i = 0;
        while i < bytes.len() {
            let c = self.class_of(bytes[i]);
            if c == C {
                return false;
            }
            let ns = self.next[s][c] as usize;
            if ns >= S {
                return false;
            }
            s = ns;
            i += 1;
        }
        true
    }
}

impl<const S: usize, const C: usize> Recognizer for TabRec<S, C> {
    fn pop_bytes(&mut self, num: usize) {
        // the walk must never pop below the state it started from
        assert!(num <= self.depth, "walk popped below its base");
        self.depth -= num;
    }
    fn collapse(&mut self) {}
    fn trie_started(&mut self, _l: &str) {
        self.started += 1;
    }
    fn trie_finished(&mut self) {
        self.finished += 1;
        self.finished_depth = self.depth;
        self.depth = 0;
    }
    fn try_push_byte(&mut self, b: u8) -> bool {
        let c = self.class_of(b);
        if c == C {
            return false;
        }
        let s = self.stack[self.depth] as usize;
        let ns = self.next[s][c];
        if ns as usize >= S {
            return false;
        }
        assert!(self.depth < MAXD, "walk deeper than the longest token");
        self.depth += 1;
        if self.depth > self.max_depth {
            self.max_depth = self.depth;
        }
        self.stack[self.depth] = ns;
        true
    }
}

fn is_prefix(a: &[u8], b: &[u8]) -> bool {
    // a is a prefix of b
    if a.len() > b.len() {
        return false;
    }
    let mut i = 0;
    while i < a.len() {
        if a[i] != b[i] {
            return false;
        }
        i += 1;
    }
    true
}

fn all_in_alpha<const C: usize>(w: &[u8], alpha: &[u8; C]) -> bool {
    // every byte of w belongs to the acceptor's alphabet (any other byte is rejected by construction)
    let mut i = 0;
    while i < w.len() {
        let mut found = false;
        let mut k = 0;
        while k < C {
            if alpha[k] == w[i] {
                found = true;
            }
            k += 1;
        }
        if !found {
            return false;
        }
        i += 1;
    }
    true
}

fn any_start<const C: usize, const L: usize>(alpha: &[u8; C]) -> [u8; L] {
    let mut st = [0u8; L];
    let mut i = 0;
    while i < L {
        let k: usize = kani::any();
        kani::assume(k < C);
        st[i] = alpha[k];
        i += 1;
    }
    st
}

/// K16.3 / C02 core: add_bias(r, set, start) == per-token test, for every table acceptor.
pub fn h_walk<const S: usize, const C: usize, const L: usize>(
    trie: &TokTrie,
    words: &[&[u8]],
    alpha: [u8; C],
) {
    let mut r = TabRec::<S, C>::any(alpha);
    let start: [u8; L] = any_start::<C, L>(&alpha);
    let v = trie.vocab_size();
    assert!(v == words.len());
    let mut set = trie.alloc_token_set();
    trie.add_bias(&mut r, &mut set, &start);

    if L == 0 {
        assert!(r.finished_depth == 0, "recognizer not back at its starting depth");
    }
    assert!(r.depth == 0);
    assert!(r.started == r.finished);
    let mut any_acc = false;
    let mut any_rej = false;
    let mut any_deep = false;
    let mut t = 0;
    while t < v {
        let w = words[t];
        let expect = !w.is_empty()
            && ((w.len() <= L && is_prefix(w, &start))
                || (w.len() > L && is_prefix(&start, w) && r.accepts(&w[L..])));
        assert!(set.is_allowed(t as u32) == expect, "mask bit differs from per-token test");
        if expect {
            any_acc = true;
            if w.len() >= L + 2 {
                any_deep = true;
            }
        } else if !w.is_empty() {
            any_rej = true;
        }
        t += 1;
    }
    // nothing at or above the vocabulary size (the fake slot at index v is cleared again)
    let sl = set.as_slice();
    let mut k = 0;
    while k < sl.len() {
        let lo = k * 32;
        let valid: u32 = if v <= lo {
            0
        } else if v - lo >= 32 {
            !0
        } else {
            (1u32 << (v - lo)) - 1
        };
        assert!(sl[k] & !valid == 0, "bit at or above vocab_size set");
        k += 1;
    }
    let mut deep_possible = false;
    let mut t = 0;
    while t < v {
        if words[t].len() >= L + 2 && all_in_alpha(words[t], &alpha) {
            deep_possible = true;
        }
        t += 1;
    }
    kani::cover!(any_acc && any_rej);
    kani::cover!((any_deep || !deep_possible) && any_rej);
}

/// has_valid_extensions(r, start) <=> some strict extension of `start` is accepted
pub fn h_has_ext<const S: usize, const C: usize, const L: usize>(
    trie: &TokTrie,
    words: &[&[u8]],
    alpha: [u8; C],
) {
    let mut r = TabRec::<S, C>::any(alpha);
    let start: [u8; L] = any_start::<C, L>(&alpha);
    let got = trie.has_valid_extensions(&mut r, &start);
    let mut expect = false;
    let mut t = 0;
    while t < words.len() {
        let w = words[t];
        if w.len() > L && is_prefix(&start, w) && r.accepts(&w[L..]) {
            expect = true;
        }
        t += 1;
    }
    assert!(got == expect, "has_valid_extensions differs from per-token test");
    assert!(r.depth == 0 && r.started == r.finished);
    // an extension can only be accepted if some longer word is spelled entirely in the acceptor's alphabet
    let mut ext_possible = false;
    let mut t = 0;
    while t < words.len() {
        if words[t].len() > L && all_in_alpha(words[t], &alpha) {
            ext_possible = true;
        }
        t += 1;
    }
    kani::cover!(got || !ext_possible);
    kani::cover!(!got);
}

/// C02, second sentence at the trie layer: a multi-byte token of vocabulary V is in the mask exactly when
/// its bytes, fed one at a time through the single-byte vocabulary B (real add_bias on B's table with
/// `start` = the bytes so far... here: the acceptor advanced by the bytes so far), are allowed at every step.
pub fn h_c02<const S: usize, const C: usize>(
    trie_v: &TokTrie,
    words_v: &[&[u8]],
    trie_b: &TokTrie,
    words_b: &[&[u8]],
    alpha: [u8; C],
) {
    let mut r = TabRec::<S, C>::any(alpha);
    let mut set_v = trie_v.alloc_token_set();
    trie_v.add_bias(&mut r, &mut set_v, &[]);
    let mut any_multi_acc = false;
    let mut any_multi_rej = false;
    let mut t = 0;
    while t < words_v.len() {
        let w = words_v[t];
        if !w.is_empty() {
            // feed bytes one at a time through B: each step is a real mask computation on B from the state
            // reached so far; the state is advanced by pushing the byte definitively (depth kept, base moved)
            let mut ok = true;
            let mut rb = TabRec::<S, C> {
                next: r.next,
                alpha: r.alpha,
                stack: [0; MAXD + 2],
                depth: 0,
                started: 0,
                finished: 0,
                finished_depth: 0,
                max_depth: 0,
            };
            let mut i = 0;
            while i < w.len() {
                if ok {
                    let mut set_b = trie_b.alloc_token_set();
                    trie_b.add_bias(&mut rb, &mut set_b, &[]);
                    // id of the single-byte token w[i] in B (generator's list, unique by construction)
                    let mut tb = words_b.len();
                    let mut k = 0;
                    while k < words_b.len() {
                        if words_b[k].len() == 1 && words_b[k][0] == w[i] {
                            tb = k;
                        }
                        k += 1;
                    }
                    // a byte outside the acceptor's alphabet has no token in B and is rejected by every acceptor
                    if tb == words_b.len() || !set_b.is_allowed(tb as u32) {
                        ok = false;
                    } else {
                        // commit the byte: new base state
                        let c = rb.class_of(w[i]);
                        let ns = rb.next[rb.stack[0] as usize][c];
                        rb.stack[0] = ns;
                        rb.depth = 0;
                    }
                }
                i += 1;
            }
            assert!(set_v.is_allowed(t as u32) == ok, "token allowed != its bytes allowed one at a time");
            if w.len() >= 2 {
                if ok {
                    any_multi_acc = true;
                } else {
                    any_multi_rej = true;
                }
            }
        } else {
            assert!(!set_v.is_allowed(t as u32));
        }
        t += 1;
    }
    kani::cover!(any_multi_acc && any_multi_rej);
}

// ------------------------------------------------------------------------------------------------
// K16.2 node packing (loop free, full width)
#[kani::proof]
fn k16_2_node_packing() {
    let byte: u8 = kani::any();
    let tok: u32 = kani::any();
    kani::assume(tok <= NO_TOKEN);
    let np: usize = kani::any();
    kani::assume(np >= 1 && np <= (1 << PARENT_BITS));
    let sz: usize = kani::any();
    kani::assume(sz < (1 << (32 - PARENT_BITS)));
    let mut n = TrieNode::new(byte, tok, np);
    assert!(n.byte() == byte);
    assert!(n.num_parents() == np);
    assert!(n.token_id() == if tok == NO_TOKEN { None } else { Some(tok) });
    assert!(n.subtree_size() == 0);
    n.set_subtree_size(sz);
    assert!(n.byte() == byte);
    assert!(n.num_parents() == np);
    assert!(n.subtree_size() == sz);
    assert!(n.token_id() == if tok == NO_TOKEN { None } else { Some(tok) });
    // a second update replaces, never accumulates
    let sz2: usize = kani::any();
    kani::assume(sz2 < (1 << (32 - PARENT_BITS)));
    n.set_subtree_size(sz2);
    assert!(n.subtree_size() == sz2 && n.num_parents() == np);
    kani::cover!(np == 1024 && sz == (1 << 22) - 1 && tok == NO_TOKEN - 1);
}

#[kani::proof]
fn k16_2_witness_must_fail() {
    let np: usize = kani::any();
    kani::assume(np >= 1 && np <= (1 << PARENT_BITS));
    let n = TrieNode::new(kani::any(), 5, np);
    assert!(n.num_parents() != 1024);
}

// ------------------------------------------------------------------------------------------------
// K16.4 table <-> vocabulary, symbolic token id / symbolic byte string
fn same_bytes(words: &[&[u8]], id: usize, w: &[u8]) -> bool {
    id < words.len() && words[id].len() == w.len() && is_prefix(w, words[id])
}

pub fn h_token_roundtrip(trie: &TokTrie, words: &[&[u8]]) {
    let v = words.len();
    // ids below V: the table is a constant, so this part is decided by constant propagation (V cases, complete);
    // bytes -> id is decided for every byte string up to 3 bytes by h_token_id_any
    let mut k = 0;
    while k < v {
        let w = words[k];
        let got = trie.token(k as u32);
        assert!(got.len() == w.len() && is_prefix(w, got));
        assert!(trie.is_special_token(k as u32) == (!w.is_empty() && w[0] == 0xff));
        k += 1;
    }
    // every id at or above V (symbolic, full u32 range)
    let t: u32 = kani::any();
    kani::assume(t as usize >= v);
    assert!(trie.token(t).is_empty());
    assert!(!trie.is_special_token(t));
    kani::cover!(t == u32::MAX);
    kani::cover!(t as usize == v);
}

/// token_id(bytes) for EVERY byte string of length 1..=3 over the alphabet: Some(t) iff some word equals it
pub fn h_token_id_any<const C: usize, const L: usize>(trie: &TokTrie, words: &[&[u8]], alpha: [u8; C]) {
    let len: usize = L;
    let full: [u8; L] = any_start::<C, L>(&alpha);
    let s = &full[..];
    let got = trie.token_id(s);
    let mut exists = false;
    let mut k = 0;
    while k < words.len() {
        let w = words[k];
        if w.len() == len && is_prefix(w, s) {
            exists = true;
        }
        k += 1;
    }
    assert!(got.is_some() == exists);
    if let Some(id) = got {
        assert!(same_bytes(words, id as usize, s));
    }
    // all_prefixes: exactly the tokens that are prefixes of s, shortest first
    let ap = trie.all_prefixes(s);
    let mut cnt = 0;
    let mut l = 1;
    while l <= len {
        let mut found = false;
        let mut k = 0;
        while k < words.len() {
            if words[k].len() == l && is_prefix(words[k], s) {
                found = true;
            }
            k += 1;
        }
        if found {
            cnt += 1;
        }
        l += 1;
    }
    assert!(ap.len() == cnt);
    let mut i = 0;
    while i < ap.len() {
        let id = ap[i] as usize;
        assert!(id < words.len() && !words[id].is_empty() && is_prefix(words[id], s));
        if i > 0 {
            assert!(words[ap[i - 1] as usize].len() < words[id].len());
        }
        i += 1;
    }
    kani::cover!(got.is_some());
    kani::cover!(got.is_none() || L == 1);
}

// ------------------------------------------------------------------------------------------------
// K16.5 greedy tokenisation of covered text (byte-complete tables only)
pub fn h_greedy<const C: usize, const L: usize>(trie: &TokTrie, words: &[&[u8]], alpha: [u8; C]) {
    // concrete length per instance (a symbolic length makes every slice bound symbolic)
    let len: usize = L;
    let full: [u8; L] = any_start::<C, L>(&alpha);
    let s = &full[..];
    let toks = trie.greedy_tokenize(s);
    // concatenation of the tokens' bytes (generator's words) == s ; each is the longest-prefix token
    let mut pos = 0;
    let mut i = 0;
    while i < toks.len() {
        let t = toks[i] as usize;
        assert!(t < words.len());
        let w = words[t];
        assert!(!w.is_empty());
        assert!(pos + w.len() <= len);
        assert!(is_prefix(w, &s[pos..]));
        // maximal munch: no longer word is a prefix of the rest
        let mut k = 0;
        while k < words.len() {
            if words[k].len() > w.len() && is_prefix(words[k], &s[pos..]) {
                assert!(false, "greedy_tokenize did not take the longest token");
            }
            k += 1;
        }
        pos += w.len();
        i += 1;
    }
    assert!(pos == len, "tokens do not decode back to the text");
    kani::cover!(L < 2 || (toks.len() < L && toks.len() > 0));
    kani::cover!(toks.len() == L);
}

// ------------------------------------------------------------------------------------------------
// K16.6 token_len for every u32 id
pub fn h_token_len(trie: &TokTrie, words: &[&[u8]]) {
    let t: u32 = kani::any();
    let l = trie.token_len(t);
    let special = if (t as usize) < words.len() {
        let w = words[t as usize % words.len()];
        w.is_empty() || w[0] == 0xff
    } else {
        true
    };
    if special {
        // decode_raw emits 0xFF '[' <decimal digits of t> ']'
        let digits = if t >= 1_000_000_000 {
            10
        } else if t >= 100_000_000 {
            9
        } else if t >= 10_000_000 {
            8
        } else if t >= 1_000_000 {
            7
        } else if t >= 100_000 {
            6
        } else if t >= 10_000 {
            5
        } else if t >= 1_000 {
            4
        } else if t >= 100 {
            3
        } else if t >= 10 {
            2
        } else {
            1
        };
        assert!(l == digits + 3);
    } else {
        assert!(l == words[t as usize % words.len()].len());
    }
    let mut has_special = false;
    let mut k = 0;
    while k < words.len() {
        if words[k].is_empty() || words[k][0] == 0xff {
            has_special = true;
        }
        k += 1;
    }
    kani::cover!(!has_special || (special && (t as usize) < words.len()));
    kani::cover!(!special);
    kani::cover!(t == u32::MAX);
}

// ------------------------------------------------------------------------------------------------
// K13.1 chop_tokens
pub fn h_chop<const S: usize, const C: usize, const N: usize>(trie: &TokTrie, words: &[&[u8]], alpha: [u8; C]) {
    let mut r = TabRec::<S, C>::any(alpha);
    let toks: [u32; N] = kani::any();
    let mut i = 0;
    while i < N {
        kani::assume((toks[i] as usize) < words.len());
        // ordinary tokens only (no empty / marker): decode_raw of those needs format!
        let w = words[toks[i] as usize % words.len()];
        kani::assume(!w.is_empty() && w[0] != 0xff);
        i += 1;
    }
    let (n_tok, n_bytes) = trie.chop_tokens(&mut r, &toks);
    assert!(n_tok <= N);
    // n_bytes == sum of the lengths of the last n_tok tokens
    let mut sum = 0;
    let mut k = 0;
    while k < N {
        if k < n_tok {
            sum += words[toks[N - 1 - k] as usize % words.len()].len();
        }
        k += 1;
    }
    assert!(n_bytes == sum);
    // oracle: the chop point is the EARLIEST suffix start (within the look-back window) from which some strictly
    // longer token is accepted by r; (0,0) iff there is none.
    let mut buf = [0u8; 16];
    let mut total = 0;
    let mut k = 0;
    while k < N {
        let w = words[toks[k] as usize % words.len()];
        let mut j = 0;
        while j < w.len() {
            buf[total] = w[j];
            total += 1;
            j += 1;
        }
        k += 1;
    }
    let win = if total > trie.max_token_len() { trie.max_token_len() } else { total };
    let mut first: usize = usize::MAX;
    let mut idx = total - win;
    while idx < total {
        if first == usize::MAX {
            let suff = &buf[idx..total];
            let mut t = 0;
            while t < words.len() {
                let w = words[t];
                if w.len() > suff.len() && is_prefix(suff, w) && r.accepts(&w[suff.len()..]) {
                    first = idx;
                }
                t += 1;
            }
        }
        idx += 1;
    }
    if first == usize::MAX {
        assert!(n_tok == 0 && n_bytes == 0);
    } else {
        let need = total - first;
        assert!(n_bytes >= need);
        // minimal number of whole tokens covering `need` bytes
        assert!(n_tok >= 1);
        let last_len = words[toks[N - n_tok] as usize % words.len()].len();
        assert!(n_bytes - last_len < need);
    }
    kani::cover!(n_tok == 0);
    kani::cover!(n_tok == 1);
    kani::cover!(N < 2 || n_tok == 2);
}

pub fn stub_format(_args: core::fmt::Arguments<'_>) -> String {
    String::new()
}

include!("verif_instances.rs");
