// Overlay-only example (never part of /repo): builds tries with the REAL TokTrie::from / filter
// for the vocabularies in argv[1] (JSON) and prints their private tables (JSON) on stdout.
use toktrie::{SimpleVob, TokRxInfo, TokTrie};

fn main() {
    let path = std::env::args().nth(1).expect("vocab json");
    let txt = std::fs::read_to_string(path).unwrap();
    let v: serde_json::Value = serde_json::from_str(&txt).unwrap();
    let mut out = Vec::new();
    for fam in v.as_array().unwrap() {
        let name = fam["name"].as_str().unwrap();
        let words: Vec<Vec<u8>> = fam["words"]
            .as_array()
            .unwrap()
            .iter()
            .map(|w| {
                w.as_array()
                    .unwrap()
                    .iter()
                    .map(|b| b.as_u64().unwrap() as u8)
                    .collect()
            })
            .collect();
        let eos = fam["eos"].as_u64().unwrap() as u32;
        let info = TokRxInfo::new(words.len() as u32, eos);
        let trie = TokTrie::from(&info, &words);
        let mut rec = format!("{{\"name\":\"{}\",\"base\":{}", name, trie.verif_dump_json());
        if let Some(mask) = fam.get("filter").and_then(|m| m.as_array()) {
            let mut f: SimpleVob = trie.alloc_token_set();
            for (i, b) in mask.iter().enumerate() {
                if b.as_bool().unwrap() {
                    f.allow_token(i as u32);
                }
            }
            let ft = trie.filter(&f);
            rec.push_str(&format!(",\"filtered\":{}", ft.verif_dump_json()));
        }
        rec.push('}');
        out.push(rec);
    }
    println!("[{}]", out.join(","));
}
