// Kani harness — child module of toktrie::tokenv. K19.2 / C20: parse_numeric_token inverts the "[<digits>]" format of
// decode_as_special / decode_raw for every token id, and never panics on arbitrary bytes.
use super::*;

fn digits_of(mut t: u32, buf: &mut [u8; 12]) -> usize {
    // "[" digits "]" written into buf, returns length
    let mut tmp = [0u8; 10];
    let mut n = 0;
    if t == 0 {
        tmp[0] = b'0';
        n = 1;
    } else {
        while t > 0 {
            tmp[n] = b'0' + (t % 10) as u8;
            t /= 10;
            n += 1;
        }
    }
    buf[0] = b'[';
    let mut i = 0;
    while i < n {
        buf[1 + i] = tmp[n - 1 - i];
        i += 1;
    }
    buf[1 + n] = b']';
    n + 2
}

#[kani::proof]
#[kani::unwind(22)]
fn k19_2_parse_numeric_roundtrip() {
    let t: u32 = kani::any();
    kani::assume(t < 100_000);
    let mut buf = [b'x'; 12];
    let n = digits_of(t, &mut buf);
    let extra: usize = kani::any();
    kani::assume(n + extra <= 12);
    let r = parse_numeric_token(&buf[..n + extra]);
    assert!(r == Some((n, t)));
    kani::cover!(t == 99_999);
    kani::cover!(t == 0 && extra == 3);
}

#[kani::proof]
#[kani::unwind(22)]
fn c20_parse_numeric_arbitrary() {
    // arbitrary bytes: no panic; a result means '[' digits ']' was really there
    let buf: [u8; 6] = kani::any();
    let n: usize = kani::any();
    kani::assume(n >= 1 && n <= 6);
    if let Some((len, _id)) = parse_numeric_token(&buf[..n]) {
        assert!(len >= 3 && len <= n);
        assert!(buf[0] == b'[' && buf[len - 1] == b']');
        let mut k = 1;
        while k < len - 1 {
            assert!(buf[k].is_ascii_digit() || (k == 1 && buf[k] == b'+'));
            k += 1;
        }
    }
    kani::cover!(parse_numeric_token(&buf[..n]).is_some());
    kani::cover!(parse_numeric_token(&buf[..n]).is_none() && buf[0] == b'[');
}
