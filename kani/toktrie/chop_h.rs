// K13.1-lite — the byte/token accounting loop of TokTrie::chop_tokens, cut out of /repo's CURRENT source on every run
// (verif_chop_slice.rs) and run with symbolic token lengths. The rest of chop_tokens (decode_raw + has_valid_extensions over
// every suffix) does not fit CBMC; the suffix search is decided separately (has_valid_extensions harnesses).
struct Lens {
    lens: [usize; 4],
}
impl Lens {
    fn token_len(&self, t: u32) -> usize {
        self.lens[t as usize]
    }
    /// same signature shape as the tail of chop_tokens: given the length in bytes of the extendable suffix, how many trailing
    /// tokens have to be dropped and how many bytes they cover
    fn account(&self, tokens: &[u32], suff: &[u8]) -> (usize, usize) {
        include!("verif_chop_slice.rs")
    }
}

fn h_chop_account<const N: usize>() {
    let lens: [usize; 4] = kani::any();
    let mut i = 0;
    while i < 4 {
        kani::assume(lens[i] >= 1 && lens[i] <= 6);
        i += 1;
    }
    let l = Lens { lens };
    let tokens: [u32; N] = core::array::from_fn(|i| i as u32);
    let mut total = 0;
    let mut i = 0;
    while i < N {
        total += lens[i];
        i += 1;
    }
    let suff_len: usize = kani::any();
    kani::assume(suff_len >= 1 && suff_len <= total);
    let buf = [0u8; 24];
    let (n_tok, n_bytes) = l.account(&tokens, &buf[..suff_len]);
    // n_bytes is exactly the length of the last n_tok tokens, they cover the suffix, and one token fewer would not
    assert!(n_tok >= 1 && n_tok <= N);
    let mut sum = 0;
    let mut k = 0;
    while k < N {
        if k < n_tok {
            sum += lens[N - 1 - k];
        }
        k += 1;
    }
    assert!(n_bytes == sum, "byte count is not the length of the dropped tokens");
    assert!(n_bytes >= suff_len);
    assert!(n_bytes - lens[N - n_tok] < suff_len, "more tokens dropped than needed");
    kani::cover!(n_bytes > suff_len);
    kani::cover!(N < 2 || n_tok == 2);
}

inst!(k13_1_chop_account_n1, h_chop_account, 8, 1);
inst!(k13_1_chop_account_n2, h_chop_account, 8, 2);
inst!(k13_1_chop_account_n4, h_chop_account, 8, 4);

#[kani::proof]
#[kani::unwind(8)]
fn k13_1_chop_witness_must_fail() {
    let l = Lens { lens: [2, 2, 1, 1] };
    let buf = [0u8; 8];
    let (n_tok, _b) = l.account(&[0, 1, 2], &buf[..2]);
    assert!(n_tok == 1);
}
