// Native-only (cfg(verif_dump)) accessor: prints the private tables of a TokTrie that was
// produced by the REAL builder (`TokTrie::from` / `filter`), so that the Kani harnesses can
// embed them as constants (the builder itself does not terminate under CBMC).
use super::*;

impl TokTrie {
    pub fn verif_dump_json(&self) -> String {
        let nodes: Vec<String> = self
            .nodes
            .iter()
            .map(|n| format!("[{},{}]", n.bits, n.bits2))
            .collect();
        let offs: Vec<String> = self
            .token_offsets
            .iter()
            .map(|d| format!("[{},{}]", d.len, d.off))
            .collect();
        let data: Vec<String> = self.token_data.iter().map(|b| b.to_string()).collect();
        let sv: Vec<String> = self.sorted_vocab.iter().map(|b| b.to_string()).collect();
        let eos: Vec<String> = self.eos_tokens.iter().map(|b| b.to_string()).collect();
        format!(
            "{{\"vocab_size\":{},\"tok_eos\":{},\"nodes\":[{}],\"token_offsets\":[{}],\"token_data\":[{}],\"max_token_len\":{},\"sorted_vocab\":[{}],\"eos_tokens\":[{}]}}",
            self.info.vocab_size,
            self.info.tok_eos,
            nodes.join(","),
            offs.join(","),
            data.join(","),
            self.max_token_len,
            sv.join(","),
            eos.join(",")
        )
    }
}
