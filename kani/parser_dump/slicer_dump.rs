// Native-only (cfg(verif_dump)) accessor — child module of llguidance::earley::slicer: prints the per-slice token sets that
// TokenizerSlice::from_topo_node precomputed (masks and the tokens left in every remainder trie), produced by the REAL code.
use super::*;

fn trie_tokens(t: &TokTrie) -> Vec<u32> {
    // the tokens a walk of this trie can reach: read from the node table exactly like the walk does (sorted_tokens decodes
    // num_parents / subtree_size), not from the token_offsets side table
    let mut v: Vec<u32> = t.sorted_tokens().into_iter().map(|(id, _)| id).collect();
    v.sort();
    v
}

fn dump_slice(s: &TokenizerSlice, out: &mut Vec<String>) {
    let ids = |v: Vec<u32>| v.iter().map(|x| x.to_string()).collect::<Vec<_>>().join(",");
    let mask: Vec<u32> = s.mask_with_children.to_list();
    let mut trimmed = s.mask_trimmed.clone();
    let _ = &mut trimmed;
    let twc: Vec<String> = s.trie_without_child.iter().map(|t| format!("[{}]", ids(trie_tokens(t)))).collect();
    out.push(format!(
        "{{\"idx\":{},\"regex\":{:?},\"children\":[{}],\"mask_with_children\":[{}],\"mask_trimmed\":[{}],\"trie_with_children\":[{}],\"trie_without_children\":[{}],\"trie_without_child\":[{}]}}",
        s.idx,
        s.regex,
        s.children.iter().map(|c| c.idx.to_string()).collect::<Vec<_>>().join(","),
        ids(mask),
        ids(s.mask_trimmed.to_list()),
        ids(trie_tokens(&s.trie_with_children)),
        ids(trie_tokens(&s.trie_without_children)),
        twc.join(",")
    ));
    for c in &s.children {
        dump_slice(c, out);
    }
}

impl SlicedBiasComputer {
    pub fn verif_dump_json(&self) -> String {
        let mut out = vec![];
        dump_slice(&self.top_slice, &mut out);
        format!("[{}]", out.join(","))
    }
}
