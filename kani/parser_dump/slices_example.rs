// Overlay-only example: builds SlicedBiasComputer (REAL from_topo_node / TokTrie::filter) for the slice lists and vocabulary in argv[1]
// and prints the per-slice tables.
use llguidance::earley::SlicedBiasComputer;
use llguidance::toktrie::{ApproximateTokEnv, TokEnv, TokRxInfo, TokTrie};
use std::sync::Arc;

fn main() {
    let path = std::env::args().nth(1).expect("job json");
    let v: serde_json::Value = serde_json::from_str(&std::fs::read_to_string(path).unwrap()).unwrap();
    let words: Vec<Vec<u8>> = v["words"].as_array().unwrap().iter()
        .map(|w| w.as_array().unwrap().iter().map(|b| b.as_u64().unwrap() as u8).collect()).collect();
    let info = TokRxInfo::new(words.len() as u32, words.len() as u32 - 1);
    let trie = TokTrie::from(&info, &words);
    let env: TokEnv = Arc::new(ApproximateTokEnv::new(trie));
    let mut out = vec![];
    for sl in v["slice_lists"].as_array().unwrap() {
        let slices: Vec<String> = match sl.as_str() {
            Some("general") => SlicedBiasComputer::general_slices(),
            _ => sl.as_array().unwrap().iter().map(|x| x.as_str().unwrap().to_string()).collect(),
        };
        match SlicedBiasComputer::new(&env, &slices) {
            Ok(c) => out.push(format!("{{\"slices\":{},\"tables\":{}}}", serde_json::to_string(&slices).unwrap(), c.verif_dump_json())),
            Err(e) => out.push(format!("{{\"slices\":{},\"error\":{:?}}}", serde_json::to_string(&slices).unwrap(), format!("{e}"))),
        }
    }
    println!("[{}]", out.join(","));
}
