#!/usr/bin/env python3
"""dev helper: prepare toktrie overlay, run harnesses matching substrings, print timings. Not registered."""
import sys, os, json
sys.path.insert(0, os.path.dirname(os.path.abspath(__file__)))
from vlib import toktrie_props as tp, e1
from vlib.common import tier
want = set("walk hasext c02 roundtrip greedy toklen chop".split())
ov, fams, dumped, inst = tp.prepare_overlay("dev", want)
print("overlay", ov.dir)
specs = tp.svob_specs(tier()) + inst.specs
pats = sys.argv[1:]
sel = [s for s in specs if any(p in s["name"] for p in pats)] if pats else specs
print("selected", len(sel))
res, logp, wall, bf = e1.run_kani(ov, "toktrie", [s["name"] for s in sel], jobs=int(os.environ.get("JOBS","12")), harness_timeout_s=int(os.environ.get("HT","600")), stubbing=bool(os.environ.get("STUB")))
print("wall", round(wall,1), "build_failed", bf, "log", logp)
for s in sel:
    r = res[s["name"]]
    print("%-50s %-8s covers %d/%d checks %d solver %.1fs dur %.1fs %s" % (r.short, r.status, r.covers_sat, r.covers_total, r.checks_total, r.solver_s, r.duration_s, [f["description"][:60] for f in r.failed[:2]]))
if bf:
    os.system("grep -v '^warning' %s | grep -B2 -A12 '^error' | head -80" % logp)
if not os.environ.get("KEEP"):
    ov.cleanup()
