#!/usr/bin/env python3
"""Runs the given checks against a mutated copy of the repository (a sub-agent's worktree or a scratch copy with a patch applied)
without touching /repo:  tools_seeded_eval.py <repo-dir> <tag> C16 [C02 ...]   -> prints exit code and verdict lines per check."""
import os, subprocess, sys, time
repo, tag, props = sys.argv[1], sys.argv[2], sys.argv[3:]
here = os.path.dirname(os.path.abspath(__file__))
out = "/var/tmp/mut/seval_%s" % tag
os.makedirs(out, exist_ok=True)
for p in props:
    env = dict(os.environ, VERIF_REPO=repo, VERIF_EVIDENCE_DIR=out + "/ev", VERIF_REPLAY_DIR=out + "/rp", VERIF_TIER=os.environ.get("VERIF_TIER", "quick"))
    t0 = time.time()
    r = subprocess.run([os.path.join(here, "check"), p], env=env, capture_output=True, text=True)
    lines = [l for l in (r.stdout + r.stderr).splitlines() if l.startswith(("VIOLATION", "OK", "INCONCLUSIVE", "KNOWN")) or "violated" in l or "INCONCLUSIVE:" in l]
    print("== %s on %s: exit %d (%.0fs)" % (p, tag, r.returncode, time.time() - t0))
    for l in lines[:8]:
        print("   ", l[:400])
    open(out + "/%s.log" % p, "w").write(r.stdout + r.stderr)
