#!/bin/bash
# Builds what the checks reuse between runs (offline): the E2 exporter against /repo (cold build of the dependency graph).
# Everything else (Kani overlays, table dumps) is rebuilt by each check from /repo's current working tree.
set -e
cd "$(dirname "$0")"
export CARGO_NET_OFFLINE=true
python3-vt - <<'PY'
import sys
sys.path.insert(0, ".")
from vlib import e2
print("exporter:", e2.build())
from vlib import slicer_tables
d, w = slicer_tables.dump(0)   # warms the native build cache used by the C10 table dump
print("slicer tables:", len(d))
PY
