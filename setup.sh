#!/bin/bash
# Builds what the checks reuse between runs (offline): the E2 exporter against /repo (cold build of the dependency graph).
# Everything else (Kani overlays, table dumps) is rebuilt by each check from /repo's current working tree.
set -e
cd "$(dirname "$0")"
export CARGO_NET_OFFLINE=true
python3-vt - <<'PY'
import sys
sys.path.insert(0, ".")
from vlib import e2
print("exporter:", e2.build())
PY
